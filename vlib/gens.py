"""Shared Hypothesis strategies. Every strategy yields plain JSON (floats, ints, lists, dicts)."""
from __future__ import annotations

import math

import numpy as np
from hypothesis import strategies as st
from hypothesis.extra import numpy as hnp


def values(lo=-1e3, hi=1e3):
    """finite floats incl. small integers and exact zeros (readable shrinks)."""
    ints_lo, ints_hi = max(int(math.ceil(lo)), -5), min(int(math.floor(hi)), 5)
    parts = [st.floats(lo, hi, allow_nan=False, allow_infinity=False, allow_subnormal=False)]
    if ints_lo <= ints_hi:
        parts.append(st.integers(ints_lo, ints_hi).map(float))
    if lo <= 0.0 <= hi:
        parts.append(st.just(0.0))
    return st.one_of(*parts)


@st.composite
def array(draw, shape, lo=-1e3, hi=1e3, styles=("raw", "raw", "int", "sparse"), tiny=1e-100):
    """float array of the given shape, as nested lists.

    One float draw per element (no ``one_of`` per element: 5x faster) plus one drawn *style* per array:
    raw floats, small integers, or floats with exact zeros sprinkled in.
    """
    style = draw(st.sampled_from(styles))
    a = draw(hnp.arrays(np.float64, shape, elements=st.floats(lo, hi, allow_nan=False, allow_infinity=False, allow_subnormal=False), fill=st.nothing()))
    if style == "int":
        lo_i, hi_i = max(int(math.ceil(lo)), -5), min(int(math.floor(hi)), 5)
        if lo_i <= hi_i and hi > lo:
            t = (a - lo) / (hi - lo)
            a = np.clip(np.round(lo_i + t * (hi_i - lo_i)), lo_i, hi_i)
    elif style == "int100":
        a = np.clip(np.round(a), math.ceil(lo), math.floor(hi))
    elif style == "sparse" and lo <= 0.0 <= hi and hi > lo:
        t = (a - lo) / (hi - lo)
        a = np.where((t * 7.0) % 1.0 < 0.3, 0.0, a)
    # magnitudes below 1e-100 are snapped to exact zero: subnormal products/quotients are not what any property is about
    a = np.where(np.abs(a) < tiny, 0.0, a)
    return (a + 0.0).tolist()


def scalar(lo, hi, tiny=1e-100, nice=(0.0, 1.0)):
    """one finite float in [lo, hi]; magnitudes below `tiny` are snapped to exact zero."""
    parts = [st.floats(lo, hi, allow_nan=False, allow_infinity=False, allow_subnormal=False).map(lambda v: 0.0 if abs(v) < tiny else float(v))]
    nice = [v for v in nice if lo <= v <= hi]
    if nice:
        parts.append(st.sampled_from(nice))
    return st.one_of(*parts)


def pos(lo, hi):
    return st.floats(lo, hi, allow_nan=False, allow_infinity=False)


@st.composite
def log_uniform(draw, lo, hi):
    e = draw(st.floats(math.log10(lo), math.log10(hi)))
    v = 10.0 ** e
    return float(min(max(v, lo), hi))


@st.composite
def ascending_domain(draw, n, uniform=None, lo_gap=1e-3, hi_gap=1e2, start=None):
    """strictly ascending domain of n points: uniform or non-uniform."""
    if uniform is None:
        uniform = draw(st.booleans())
    x0 = draw(st.one_of(st.just(0.0), st.integers(-300, 700).map(float), st.floats(-1e3, 1e3))) if start is None else start
    if uniform:
        step = draw(st.one_of(st.sampled_from([1.0, 0.5, 2.0, 10.0]), log_uniform(lo_gap, hi_gap)))
        return [x0 + k * step for k in range(n)]
    gaps = draw(st.lists(st.one_of(st.sampled_from([1.0, 0.5, 3.0]), log_uniform(lo_gap, hi_gap)), min_size=max(n - 1, 0), max_size=max(n - 1, 0)))
    out = [x0]
    for g in gaps:
        out.append(out[-1] + g)
    return out


def is_uniform(dom):
    d = np.diff(np.asarray(dom, dtype=float))
    return d.size == 0 or bool(np.allclose(d, d[0], rtol=1e-12, atol=0))


def with_layout(a, kind):
    """the same values in a different memory layout: 'C' (contiguous), 'F' (Fortran order, e.g. the transpose of a
    channels x samples array or a pandas column block) or 'strided' (a view into a larger buffer)."""
    a = np.asarray(a, dtype=float)
    if a.ndim != 2 or kind in (None, "C"):
        return np.ascontiguousarray(a)
    if kind == "F":
        return np.asfortranarray(a)
    buf = np.zeros((a.shape[0] * 2, a.shape[1] * 2))
    buf[::2, ::2] = a
    return buf[::2, ::2]


def as_form(a, form):
    """the same values as another kind of argument: None/'array' float ndarray, 'list' nested Python lists,
    'int' an integer-typed ndarray when every value is integral (else unchanged)."""
    arr = np.asarray(a, dtype=float)
    if form == "list":
        return arr.tolist()
    if form == "intlist" and arr.size and np.all(np.isfinite(arr)) and np.all(arr == np.round(arr)) and np.all(np.abs(arr) < 2 ** 52):
        return arr.astype(np.int64).tolist()
    if form == "int" and arr.size and np.all(np.isfinite(arr)) and np.all(arr == np.round(arr)) and np.all(np.abs(arr) < 2 ** 52):
        return arr.astype(np.int64)
    return arr


def seed_value():
    """an integer seed: mostly arbitrary, but 0 and 1 (falsy / truthy edge values) are drawn often"""
    return st.one_of(st.sampled_from([0, 0, 1]), st.integers(0, 2 ** 31 - 1), st.integers(0, 2 ** 31 - 1), st.integers(0, 2 ** 31 - 1))
