"""Independent oracles: none of them calls dreye or cvxpy."""
from __future__ import annotations

import math

import numpy as np


# --------------------------------------------------------------------------------------------
# trapezoid


def trapz_fsum(y, x=None, dx=None):
    """pure-Python trapezoid rule with exact summation; returns (value, sum of |terms|)."""
    n = len(y)
    terms = []
    for k in range(n - 1):
        w = (x[k + 1] - x[k]) if x is not None else dx
        terms.append(w * (y[k] + y[k + 1]) / 2.0)
    return math.fsum(terms), math.fsum(abs(t) for t in terms)


def rect_fsum(y, dx):
    terms = [v * dx for v in y]
    return math.fsum(terms), math.fsum(abs(t) for t in terms)


def trapz_np(y, x=None, dx=1.0, axis=-1):
    """own vectorised trapezoid formula (not np.trapz/np.trapezoid); returns (value, abs-scale)."""
    y = np.moveaxis(np.asarray(y, dtype=float), axis, -1)
    if x is not None:
        d = np.diff(np.asarray(x, dtype=float))
    else:
        d = np.full(y.shape[-1] - 1, float(dx))
    t = d * (y[..., 1:] + y[..., :-1]) / 2.0
    return t.sum(-1), np.abs(d * (np.abs(y[..., 1:]) + np.abs(y[..., :-1])) / 2.0).sum(-1)


def interp_linear(xnew, x, y, local_mag=False):
    """own piece-wise linear interpolation of 1-D y(x) (x strictly ascending) at xnew, 0 outside.

    With local_mag=True returns instead the local magnitude sum(|y|) over the bracketing knots and their
    neighbours (the scale against which an interpolation error is judged)."""
    out = []
    n = len(x)
    for v in xnew:
        if v < x[0] or v > x[-1]:
            out.append(0.0)
            continue
        if local_mag:
            lo, hi = 0, n - 1
            while hi - lo > 1:
                mid = (lo + hi) // 2
                if x[mid] <= v:
                    lo = mid
                else:
                    hi = mid
            out.append(float(sum(abs(t) for t in y[max(lo - 1, 0):hi + 2])))
            continue
        # binary search for the segment
        lo, hi = 0, n - 1
        while hi - lo > 1:
            mid = (lo + hi) // 2
            if x[mid] <= v:
                lo = mid
            else:
                hi = mid
        if n == 1 or x[hi] == x[lo]:
            out.append(float(y[lo]))
            continue
        t = (v - x[lo]) / (x[hi] - x[lo])
        out.append(float(y[lo] + t * (y[hi] - y[lo])))
    return out
