"""Independent oracles: none of them calls dreye or cvxpy."""
from __future__ import annotations

import math

import numpy as np


# --------------------------------------------------------------------------------------------
# trapezoid


def trapz_fsum(y, x=None, dx=None):
    """pure-Python trapezoid rule with exact summation; returns (value, sum of |terms|)."""
    n = len(y)
    terms = []
    for k in range(n - 1):
        w = (x[k + 1] - x[k]) if x is not None else dx
        terms.append(w * (y[k] + y[k + 1]) / 2.0)
    return math.fsum(terms), math.fsum(abs(t) for t in terms)


def rect_fsum(y, dx):
    terms = [v * dx for v in y]
    return math.fsum(terms), math.fsum(abs(t) for t in terms)


def trapz_np(y, x=None, dx=1.0, axis=-1):
    """own vectorised trapezoid formula (not np.trapz/np.trapezoid); returns (value, abs-scale)."""
    y = np.moveaxis(np.asarray(y, dtype=float), axis, -1)
    if x is not None:
        d = np.diff(np.asarray(x, dtype=float))
    else:
        d = np.full(y.shape[-1] - 1, float(dx))
    t = d * (y[..., 1:] + y[..., :-1]) / 2.0
    return t.sum(-1), np.abs(d * (np.abs(y[..., 1:]) + np.abs(y[..., :-1])) / 2.0).sum(-1)


def interp_linear(xnew, x, y, local_mag=False):
    """own piece-wise linear interpolation of 1-D y(x) (x strictly ascending) at xnew, 0 outside.

    With local_mag=True returns instead the local magnitude sum(|y|) over the bracketing knots and their
    neighbours (the scale against which an interpolation error is judged)."""
    out = []
    n = len(x)
    for v in xnew:
        if v < x[0] or v > x[-1]:
            out.append(0.0)
            continue
        if local_mag:
            lo, hi = 0, n - 1
            while hi - lo > 1:
                mid = (lo + hi) // 2
                if x[mid] <= v:
                    lo = mid
                else:
                    hi = mid
            out.append(float(sum(abs(t) for t in y[max(lo - 1, 0):hi + 2])))
            continue
        # binary search for the segment
        lo, hi = 0, n - 1
        while hi - lo > 1:
            mid = (lo + hi) // 2
            if x[mid] <= v:
                lo = mid
            else:
                hi = mid
        if n == 1 or x[hi] == x[lo]:
            out.append(float(y[lo]))
            continue
        t = (v - x[lo]) / (x[hi] - x[lo])
        out.append(float(y[lo] + t * (y[hi] - y[lo])))
    return out


# --------------------------------------------------------------------------------------------
# linear model helpers and LP / BVLS oracles (scipy HiGHS, active-set BVLS) - never cvxpy, never dreye


def transform(A, K, baseline):
    """(A', base') of the documented model B = K (A x + baseline); K None/scalar/vector/matrix, baseline None/scalar/vector."""
    A = np.atleast_2d(np.asarray(A, dtype=float))
    m = A.shape[0]
    base = np.zeros(m) if baseline is None else np.broadcast_to(np.asarray(baseline, dtype=float), (m,)).astype(float)
    if K is None:
        return A.copy(), base.copy()
    K = np.asarray(K, dtype=float)
    if K.ndim == 0:
        return A * float(K), base * float(K)
    if K.ndim == 1:
        Kv = np.broadcast_to(K, (m,))
        return A * Kv[:, None], base * Kv
    return K @ A, K @ base


def bounds_arrays(lb, ub, n):
    lbv = np.zeros(n) if lb is None else np.broadcast_to(np.asarray(lb, dtype=float), (n,)).astype(float)
    ubv = np.full(n, np.inf) if ub is None else np.broadcast_to(np.asarray(ub, dtype=float), (n,)).astype(float)
    return lbv, ubv


def _linprog(c, A_ub=None, b_ub=None, A_eq=None, b_eq=None, bounds=None):
    from scipy.optimize import linprog

    return linprog(c, A_ub=A_ub, b_ub=b_ub, A_eq=A_eq, b_eq=b_eq, bounds=bounds, method="highs")


def lp_margin(Ap, basep, lb, ub, b):
    """max t s.t. A'x + base' = b, lb + t r <= x <= ub - t r (r = half range); finite bounds only.
    t* >= tau > 0  <=> strictly inside; returns None when the equality system has no in-bound solution even for t -> -inf
    is not possible (t is free), so None means the equality itself is infeasible (flat gamut / inconsistent)."""
    Ap = np.atleast_2d(Ap)
    m, n = Ap.shape
    r = (ub - lb) / 2.0
    # variables [x, t]; maximise t
    c = np.zeros(n + 1)
    c[-1] = -1.0
    A_eq = np.hstack([Ap, np.zeros((m, 1))])
    b_eq = np.asarray(b, dtype=float) - basep
    # x - ub + t r <= 0 ; -x + lb + t r <= 0
    A_ub = np.vstack([np.hstack([np.eye(n), r[:, None]]), np.hstack([-np.eye(n), r[:, None]])])
    b_ub = np.concatenate([ub, -lb])
    res = _linprog(c, A_ub=A_ub, b_ub=b_ub, A_eq=A_eq, b_eq=b_eq, bounds=[(None, None)] * n + [(None, 1.0)])
    if res.status == 0:
        return float(res.x[-1])
    return None


def lp_dist(Ap, basep, lb, ub, b):
    """min over in-bound x of || A'x + base' - b ||_inf  (works for ub = inf, flat gamuts); returns (d, x)."""
    Ap = np.atleast_2d(Ap)
    m, n = Ap.shape
    c = np.zeros(n + 1)
    c[-1] = 1.0
    rhs = np.asarray(b, dtype=float) - basep
    A_ub = np.vstack([np.hstack([Ap, -np.ones((m, 1))]), np.hstack([-Ap, -np.ones((m, 1))])])
    b_ub = np.concatenate([rhs, -rhs])
    bnds = [(float(l), (None if not np.isfinite(u) else float(u))) for l, u in zip(lb, ub)] + [(0.0, None)]
    res = _linprog(c, A_ub=A_ub, b_ub=b_ub, bounds=bnds)
    if res.status != 0:
        raise RuntimeError(f"lp_dist failed: status {res.status} {res.message}")
    return float(res.x[-1]), np.asarray(res.x[:-1])


def lp_extents(Ap, basep, lb, ub, b):
    """per-source min and max of x over {A'x + base' = b, lb <= x <= ub}; None if infeasible."""
    Ap = np.atleast_2d(Ap)
    m, n = Ap.shape
    rhs = np.asarray(b, dtype=float) - basep
    bnds = [(float(l), (None if not np.isfinite(u) else float(u))) for l, u in zip(lb, ub)]
    mins, maxs = np.zeros(n), np.zeros(n)
    for k in range(n):
        c = np.zeros(n)
        c[k] = 1.0
        r1 = _linprog(c, A_eq=Ap, b_eq=rhs, bounds=bnds)
        r2 = _linprog(-c, A_eq=Ap, b_eq=rhs, bounds=bnds)
        if r1.status != 0 or r2.status != 0:
            return None
        mins[k], maxs[k] = r1.x[k], r2.x[k]
    return mins, maxs


def lp_sum_extreme(Ap, basep, lb, ub, b, maximize=False):
    """min / max of sum(x) over {A'x + base' = b, box}."""
    Ap = np.atleast_2d(Ap)
    n = Ap.shape[1]
    rhs = np.asarray(b, dtype=float) - basep
    bnds = [(float(l), (None if not np.isfinite(u) else float(u))) for l, u in zip(lb, ub)]
    c = -np.ones(n) if maximize else np.ones(n)
    r = _linprog(c, A_eq=Ap, b_eq=rhs, bounds=bnds)
    if r.status != 0:
        return None
    return float(np.sum(r.x)), np.asarray(r.x)


def bvls(Ap, basep, lb, ub, b, w=None):
    """bounded weighted least squares optimum by the active-set BVLS solver: returns (x, weighted residual norm)."""
    from scipy.optimize import lsq_linear

    Ap = np.atleast_2d(Ap)
    w = np.ones(Ap.shape[0]) if w is None else np.asarray(w, dtype=float)
    M = Ap * w[:, None]
    y = (np.asarray(b, dtype=float) - basep) * w
    res = lsq_linear(M, y, bounds=(lb, ub), method="bvls", tol=1e-14, max_iter=2000)
    x = np.asarray(res.x)
    if not np.all(np.isfinite(x)):
        # BVLS can break down on degenerate vertices (singular free-set systems): fall back to the trust-region solver,
        # polished by a second BVLS-free pass; the result is still an in-bound point, so comparisons stay one-sided sound
        res = lsq_linear(M, y, bounds=(lb, ub), method="trf", tol=1e-14, max_iter=5000, lsq_solver="exact")
        x = np.clip(np.asarray(res.x), lb, ub)
    return x, float(np.linalg.norm(M @ x - y))


def hull_dist(P, b):
    """min over convex weights lam of || lam P - b ||_inf for an explicit point cloud P (rows); returns (d, lam)."""
    P = np.atleast_2d(np.asarray(P, dtype=float))
    k, d = P.shape
    c = np.zeros(k + 1)
    c[-1] = 1.0
    b = np.asarray(b, dtype=float)
    # the LP's feasibility tolerance (1e-7) is absolute: solve in coordinates relative to the cloud (convex weights sum to one, so
    # the distance is invariant to the shift and scales with the cloud), e.g. a cloud of width 0.02 around (1, 1, 1)
    lo = P.min(axis=0)
    span = float(np.max(P.max(axis=0) - lo))
    if not (np.isfinite(span) and span > 0):
        span = 1.0
    P, b = (P - lo) / span, (b - lo) / span
    A_ub = np.vstack([np.hstack([P.T, -np.ones((d, 1))]), np.hstack([-P.T, -np.ones((d, 1))])])
    b_ub = np.concatenate([b, -b])
    A_eq = np.hstack([np.ones((1, k)), np.zeros((1, 1))])
    res = _linprog(c, A_ub=A_ub, b_ub=b_ub, A_eq=A_eq, b_eq=[1.0], bounds=[(0, None)] * (k + 1))
    if res.status != 0:
        raise RuntimeError(f"hull_dist failed: {res.message}")
    return float(res.x[-1]) * span, np.asarray(res.x[:-1])


def hull_weight_margin(P, b):
    """max t s.t. sum lam_i P_i = b, sum lam = 1, lam_i >= t.  t* > 0 <=> b in the relative interior of hull(P);
    None when b is not in the hull at all."""
    P = np.atleast_2d(np.asarray(P, dtype=float))
    k, d = P.shape
    c = np.zeros(k + 1)
    c[-1] = -1.0
    A_eq = np.vstack([np.hstack([P.T, np.zeros((d, 1))]), np.hstack([np.ones((1, k)), np.zeros((1, 1))])])
    b_eq = np.concatenate([np.asarray(b, dtype=float), [1.0]])
    A_ub = np.hstack([-np.eye(k), np.ones((k, 1))])
    res = _linprog(c, A_ub=A_ub, b_ub=np.zeros(k), A_eq=A_eq, b_eq=b_eq, bounds=[(None, None)] * k + [(None, 1.0)])
    if res.status != 0:
        return None
    return float(res.x[-1])


def ray_scale(Ap, basep, lb, ub, b):
    """chromatic membership: max s and min s with A'x + base' = s b, x in the box; None if no s works."""
    Ap = np.atleast_2d(Ap)
    m, n = Ap.shape
    b = np.asarray(b, dtype=float)
    A_eq = np.hstack([Ap, -b[:, None]])
    b_eq = -basep
    bnds = [(float(l), (None if not np.isfinite(u) else float(u))) for l, u in zip(lb, ub)] + [(0.0, None)]
    c = np.zeros(n + 1)
    c[-1] = -1.0
    r = _linprog(c, A_eq=A_eq, b_eq=b_eq, bounds=bnds)
    if r.status == 3:  # unbounded
        return np.inf
    if r.status != 0:
        return None
    return float(r.x[-1])


def rows_sharing_a_solution(B, X, lb, ub, A=None, scale=0.0, opt_pred=None):
    """Index pairs (i, j), i < j, of rows with different targets whose returned intensity vectors are bit-identical although some
    coordinate lies strictly inside its bounds.  Two different problems solved numerically do not end in the same bits (even targets
    1e-12 apart give intensities 1e-13 apart), so such a pair means a result was copied from another row.  With opt_pred (the optimal
    predicted capture of every row, from an independent solve) a pair counts only if the two optima differ by more than 1e-7 of the
    gamut's size: an in-gamut target next to a facet and the projection of an out-of-gamut target onto the same facet point are
    different targets with the same answer."""
    B, X = np.asarray(B, dtype=float), np.asarray(X, dtype=float)
    lb = np.broadcast_to(np.asarray(lb, dtype=float), X.shape[1:])
    ub = np.broadcast_to(np.asarray(ub, dtype=float), X.shape[1:])
    # "strictly inside": by more than the solvers' tolerance (an active bound is returned as bound -/+ 1e-9, identically for two rows)
    rng = np.where(np.isfinite(ub - lb), ub - lb, 1.0)
    out = []
    for j in range(1, X.shape[0]):
        for i in range(j):
            inside = (X[j] > lb + 1e-6 * rng) & (X[j] < ub - 1e-6 * rng)
            if A is not None:
                inside = inside & (np.abs(np.asarray(A, dtype=float)).sum(axis=0) > 0)     # a source no receptor sees is free
            # (targets that differ by less than 1e-9 of the gamut's size - e.g. two denormal numbers - are the same problem numerically)
            if np.array_equal(X[i], X[j]) and float(np.max(np.abs(B[i] - B[j]))) > 1e-9 * scale and not np.array_equal(B[i], B[j]) and np.any(inside):
                if opt_pred is not None and float(np.max(np.abs(np.asarray(opt_pred[i], dtype=float) - np.asarray(opt_pred[j], dtype=float)))) <= 1e-7 * max(scale, 1e-300):
                    continue
                out.append((i, j))
    return out
