"""The shared *system* generator (DESIGN 2.1) and helpers to drive dreye with it.

A system is plain JSON: {"A": m x n, "lb": list|None, "ub": list|None, "K": None|float|list|matrix, "baseline": None|float|list}.
Targets are *constructed* (interior / facet / near-boundary / outside / below-baseline), never filtered.
"""
from __future__ import annotations

import itertools
import math

import numpy as np
from hypothesis import strategies as st

from vlib import gens
from vlib.oracles import bounds_arrays, transform

NOMINAL_RANGE = 5.0   # range used for "extent" when a source is unbounded above


class Sys:
    """numpy view of a JSON system + the documented transformed model."""

    def __init__(self, d):
        self.d = d
        self.A = np.asarray(d["A"], dtype=float)
        self.m, self.n = self.A.shape
        self.lb_raw, self.ub_raw = d.get("lb"), d.get("ub")
        self.K_raw, self.base_raw = d.get("K"), d.get("baseline")
        self.lb, self.ub = bounds_arrays(self.lb_raw, self.ub_raw, self.n)
        self.Ap, self.basep = transform(self.A, self.K_raw, self.base_raw)
        self.bounded = bool(np.all(np.isfinite(self.ub)))
        self.range = np.where(np.isfinite(self.ub), self.ub - self.lb, NOMINAL_RANGE)
        self.extent_i = np.abs(self.Ap) @ self.range
        self.extent = float(np.max(self.extent_i)) if self.extent_i.size else 1.0

    # --- arguments for the functional API (K must be at least 1-D there, see apply_linear_transform)
    def K_arg(self):
        if self.K_raw is None:
            return None
        return np.atleast_1d(np.asarray(self.K_raw, dtype=float))

    def base_arg(self):
        if self.base_raw is None:
            return None
        b = np.asarray(self.base_raw, dtype=float)
        return float(b) if b.ndim == 0 else b

    # "bounds_form" in the JSON system: how the bounds are handed over ('int' = integer-typed array when whole numbers, 'list')
    def lb_arg(self):
        return None if self.lb_raw is None else gens.as_form(self.lb_raw, self.d.get("bounds_form"))

    def ub_arg(self):
        return None if self.ub_raw is None else gens.as_form(self.ub_raw, self.d.get("bounds_form"))

    def kwargs(self):
        return dict(lb=self.lb_arg(), ub=self.ub_arg(), K=self.K_arg(), baseline=self.base_arg())

    def predict(self, X):
        return np.asarray(X, dtype=float) @ self.Ap.T + self.basep

    def labels(self):
        labs = [f"{self.m}x{self.n}", "under" if self.n > self.m else ("exact" if self.n == self.m else "over")]
        labs.append("K:" + ("none" if self.K_raw is None else {0: "scalar", 1: "vector", 2: "matrix"}[np.ndim(self.K_raw)]))
        labs.append("base:" + ("none" if self.base_raw is None else {0: "scalar", 1: "vector"}[np.ndim(self.base_raw)]))
        labs.append("ub:" + ("finite" if self.bounded else "inf"))
        labs.append("lb:" + ("zero" if not np.any(self.lb > 0) else "pos"))
        return labs

    # --- estimator whose capture matrix is exactly A: zero-padded filters on a unit-step domain, one-hot sources
    def make_estimator(self, w=None, with_system=True):
        import dreye

        filt = np.zeros((self.m, self.n + 2))
        filt[:, 1:-1] = self.A
        src = np.zeros((self.n, self.n + 2))
        src[np.arange(self.n), np.arange(self.n) + 1] = 1.0
        kw = {}
        if self.K_raw is not None:
            kw["K"] = self.K_raw if np.ndim(self.K_raw) == 0 else np.asarray(self.K_raw, dtype=float)
        if self.base_raw is not None:
            kw["baseline"] = self.base_raw if np.ndim(self.base_raw) == 0 else np.asarray(self.base_raw, dtype=float)
        if w is not None:
            kw["w"] = w
        # The same registered values are reached along different documented routes (chosen from the system's content, so a case
        # always takes the same one): everything through the constructor / register_system, or K, baseline and the two bounds
        # registered afterwards one at a time.  Every estimator-level check thereby also covers the registration paths.
        route = int(abs(float(np.sum(self.A))) * 1e6) % 4 if with_system else 0
        if route in (2, 3):
            est = dreye.ReceptorEstimator(filt, domain=1.0, **({"w": w} if w is not None else {}))
            est.register_system(src)
            lb_a, ub_a = self.lb_arg(), self.ub_arg()
            for which in (("lb", "ub") if route == 2 else ("ub", "lb")):
                if which == "lb" and lb_a is not None:
                    est.register_bounds(lb=lb_a)
                if which == "ub" and ub_a is not None:
                    est.register_bounds(ub=ub_a)
            if "K" in kw:
                est.register_adaptation(kw["K"])
            if "baseline" in kw:
                est.register_baseline(kw["baseline"])
            return est
        est = dreye.ReceptorEstimator(filt, domain=1.0, **kw)
        if with_system:
            if route == 1:
                est.register_system(src)
                est.register_bounds(lb=self.lb_arg(), ub=self.ub_arg())
            else:
                est.register_system(src, lb=self.lb_arg(), ub=self.ub_arg())
        return est


def _cond(M):
    try:
        s = np.linalg.svd(M, compute_uv=False)
        k = min(M.shape)
        if s[k - 1] <= 0:
            return np.inf
        return float(s[0] / s[k - 1])
    except np.linalg.LinAlgError:
        return np.inf


@st.composite
def _raw_A(draw, m, n, nonneg=True):
    style = draw(st.sampled_from(["uniform", "uniform", "bump", "ints", "sparse"]))
    if style == "bump":
        cs = sorted(draw(st.lists(st.floats(0.0, 1.0), min_size=m, max_size=m)))
        ps = draw(st.lists(st.floats(-0.1, 1.1), min_size=n, max_size=n))
        w = draw(st.floats(0.15, 0.6))
        A = np.array([[math.exp(-((c - p) / w) ** 2) for p in ps] for c in cs]) + 0.02
    elif style == "ints":
        A = np.asarray(draw(gens.array((m, n), 0.0, 5.0, styles=("int",))), dtype=float).reshape(m, n) / 5.0
    else:
        A = np.asarray(draw(gens.array((m, n), 0.05, 1.0, styles=("raw",))), dtype=float).reshape(m, n)
        if style == "sparse":
            mask = np.asarray(draw(gens.array((m, n), 0.0, 1.0, styles=("raw",)))).reshape(m, n) < 0.25
            A = np.where(mask, 0.0, A)
    if not nonneg and draw(st.booleans()):
        sign = np.where(np.asarray(draw(gens.array((m, n), 0.0, 1.0, styles=("raw",)))).reshape(m, n) < 0.2, -1.0, 1.0)
        A = A * sign
    return A


FALLBACKS = {}


def _fallback_A(m, n):
    """deterministic well-conditioned non-negative matrix (used only after repeated redraws)."""
    A = np.full((m, n), 0.1)
    for j in range(n):
        A[j % m, j] += 0.9 - 0.07 * (j // m)
    for i in range(m):
        for j in range(n):
            A[i, j] += 0.013 * ((i * 7 + j * 3) % 5)
    return A


@st.composite
def matrix_system(
    draw,
    m=(2, 5),
    n=(1, 8),
    shape=None,             # None | "under" | "exact" | "over" | "notunder"
    ub_kinds=("finite", "finite", "inf"),
    lb_kinds=("zero", "zero", "pos"),
    K_kinds=("none", "scalar", "vector", "matrix"),
    base_kinds=("none", "scalar", "vector"),
    nonneg=True,
    max_cond=1e3,
    sub_cond=None,          # bound on cond of every m x m column sub-matrix (polytope properties)
    surplus=None,           # (lo, hi) for n - m when shape == "under"
):
    mm = draw(st.integers(*m))
    if shape == "under":
        lo, hi = surplus or (1, 3)
        nn = mm + draw(st.integers(lo, hi))
    elif shape == "exact":
        nn = mm
    elif shape == "over":
        nn = draw(st.integers(1, max(1, mm - 1)))
    elif shape == "notunder":
        nn = draw(st.integers(1, mm))
    else:
        nn = draw(st.integers(*n))
    # K and baseline of O(1)
    kk = draw(st.sampled_from(K_kinds))
    if kk == "none":
        K = None
    elif kk == "scalar":
        K = draw(st.one_of(st.sampled_from([1.0, 2.0, 0.5]), st.floats(0.2, 5.0)))
    elif kk == "vector":
        K = draw(gens.array((mm,), 0.2, 5.0, styles=("raw",)))
    else:
        P = np.asarray(draw(gens.array((mm, mm), -0.3 if not nonneg else 0.0, 0.3, styles=("raw", "sparse")))).reshape(mm, mm)
        Km = np.eye(mm) * draw(st.floats(0.5, 2.0)) + P / max(1, mm - 1) * (1 - np.eye(mm)) + np.diag(np.abs(np.diag(P)))
        K = Km.tolist()
    bk = draw(st.sampled_from(base_kinds))
    if bk == "none":
        baseline = None
    elif bk == "scalar":
        # baseline is exactly zero or at least 1e-3 capture units (adapted regime)
        baseline = draw(gens.scalar(0.0, 5.0, tiny=1e-3, nice=(0.0, 1.0, 0.1)))
    else:
        baseline = draw(gens.array((mm,), 0.0, 5.0, styles=("raw", "raw", "sparse"), tiny=1e-3))
    # bounds
    uk = draw(st.sampled_from(ub_kinds))
    ub = None if uk == "inf" else draw(gens.array((nn,), 0.05, 10.0, styles=("raw", "int100")))
    if ub is not None:
        ub = [max(0.05, float(u)) for u in ub]
    lk = draw(st.sampled_from(lb_kinds))
    if lk == "zero":
        lb = draw(st.sampled_from([None, [0.0] * nn]))
    else:
        fr = draw(gens.array((nn,), 0.0, 0.6, styles=("raw", "sparse"), tiny=1e-2))
        # unbounded sources: lower bounds on the scale of the nominal range (also above 1 intensity unit)
        top = ub if ub is not None else [draw(st.sampled_from([1.0, NOMINAL_RANGE]))] * nn
        lb = [float(f) * float(u) for f, u in zip(fr, top)]
        if lk == "mixed-sign":
            # some sources may be driven negative (a legitimate lower bound of either sign), others not
            sg = draw(st.lists(st.sampled_from([-1.0, -1.0, 0.0, 1.0]), min_size=nn, max_size=nn))
            lb = [float(v) * s_ for v, s_ in zip(lb, sg)]
    # capture matrix, redrawn (bounded) until well-conditioned
    redraws = 0
    A = None
    for attempt in range(6):
        cand = draw(_raw_A(mm, nn, nonneg=nonneg))
        Ap, _ = transform(cand, K, baseline)
        ok = _cond(Ap) <= max_cond
        if ok and sub_cond is not None and nn > mm:
            for cols in itertools.combinations(range(nn), mm):
                if _cond(Ap[:, cols]) > sub_cond:
                    ok = False
                    break
        if ok:
            # every receptor must see the system: per-receptor extents within a factor 100 of each other
            lbv0, ubv0 = bounds_arrays(lb, ub, nn)
            ext0 = np.abs(Ap) @ np.where(np.isfinite(ubv0), ubv0 - lbv0, NOMINAL_RANGE)
            ok = bool(np.min(ext0) > 0 and np.max(ext0) / np.min(ext0) <= 100.0)
        if ok:
            A = cand
            break
        redraws += 1
    if A is None:
        A = _fallback_A(mm, nn)
        Ktmp = K
        Ap, _ = transform(A, Ktmp, baseline)
        if _cond(Ap) > max_cond:
            K = None if kk != "scalar" else K
    # scale to the adapted regime: gamut extent per receptor within [1, 100]
    lbv, ubv = bounds_arrays(lb, ub, nn)
    rng = np.where(np.isfinite(ubv), ubv - lbv, NOMINAL_RANGE)
    Ap, _ = transform(A, K, baseline)
    ext = np.abs(Ap) @ rng
    tgt = draw(gens.log_uniform(3.0, 100.0))
    g = tgt / float(np.max(ext))
    if float(np.min(ext)) * g < 1.0:
        g = 1.0 / float(np.min(ext))          # then max extent = max/min ratio; accept up to 1000 (rare)
    A = (A * g).tolist()
    return dict(A=A, lb=lb, ub=ub, K=K, baseline=baseline, _redraws=redraws)


# ------------------------------------------------------------------------------------------------
# target construction


def facet_point(sysv: Sys, cols, sign, free_u, pin=None):
    """a point of the gamut boundary: maximise sign*u.b where u is normal to the span of the chosen columns."""
    Ap = sysv.Ap
    m, n = Ap.shape
    if m == 1:
        u = np.array([1.0])
    else:
        M = Ap[:, cols]                     # m x (m-1)
        U, s, Vt = np.linalg.svd(M, full_matrices=True)
        u = U[:, -1]
    u = u * sign
    x = np.where(Ap.T @ u > 0, sysv.ub, sysv.lb).astype(float)
    for k, c in enumerate(cols):
        fu = free_u[k % len(free_u)] if free_u else 0.5
        if pin is not None and pin[k % len(pin)]:
            fu = 0.0 if fu < 0.5 else 1.0
        x[c] = sysv.lb[c] + fu * (sysv.ub[c] - sysv.lb[c])
    return x, u / (np.linalg.norm(u) + 1e-300)


@st.composite
def target_rows(draw, sysd, kinds, nrows=(1, 4), margin=(0.05, 0.45)):
    """constructed targets: list of dicts {b, kind, delta?}. kinds subset of
    interior / facet / face / vertex / near_in / near_out / outside / below / scaled_out / random"""
    sv = Sys(sysd)
    m, n = sv.m, sv.n
    k = draw(st.integers(*nrows))
    rows = []
    for _ in range(k):
        kind = draw(st.sampled_from(kinds))
        geometric = kind in ("facet", "face", "vertex", "near_in", "near_out", "outside")
        if geometric and (not sv.bounded or n < m):
            kind = "interior" if kind in ("near_in",) else ("random" if kind in ("near_out", "outside") else "interior")
        if kind == "interior":
            mg = draw(st.floats(*margin))
            u = np.asarray(draw(gens.array((n,), mg, 1.0 - mg, styles=("raw",))))
            x = sv.lb + u * sv.range
            rows.append(dict(b=sv.predict(x).tolist(), kind="interior", x=x.tolist(), margin=mg))
        elif kind in ("facet", "face", "vertex", "near_in", "near_out", "outside"):
            ncols = max(m - 1, 0)
            cols = draw(st.permutations(list(range(n))))[:ncols] if ncols else []
            sign = draw(st.sampled_from([1.0, -1.0]))
            free_u = draw(st.lists(st.floats(0.1, 0.9), min_size=max(ncols, 1), max_size=max(ncols, 1)))
            pin = None
            if kind == "face":
                pin = draw(st.lists(st.booleans(), min_size=max(ncols, 1), max_size=max(ncols, 1)))
            elif kind == "vertex":
                pin = [True] * max(ncols, 1)
            x, u = facet_point(sv, list(cols), sign, free_u, pin)
            b0 = sv.predict(x)
            if kind in ("facet", "face", "vertex"):
                rows.append(dict(b=b0.tolist(), kind=kind, x=x.tolist()))
            else:
                if kind == "outside":
                    delta = draw(st.floats(0.05, 3.0)) * sv.extent
                    b = b0 + delta * u
                    rows.append(dict(b=b.tolist(), kind="outside", delta=float(delta)))
                else:
                    delta = draw(gens.log_uniform(1e-9, 1e-2)) * sv.extent
                    # move the facet point inwards along -u (staying in the facet's interior part) or outwards
                    if kind == "near_in":
                        # pull towards an interior point to make sure we are inside: b0 - delta*u is inside only if the
                        # facet point is in the relative interior of the facet and delta is small; the LP decides.
                        b = b0 - delta * u
                    else:
                        b = b0 + delta * u
                    rows.append(dict(b=b.tolist(), kind=kind, delta=float(delta)))
        elif kind == "below_lb":
            # image of intensities with one source *below* its (positive) lower bound, the others strictly inside
            u = np.asarray(draw(gens.array((n,), 0.1, 0.9, styles=("raw",))))
            x = sv.lb + u * sv.range
            j = draw(st.integers(0, n - 1))
            if sv.lb[j] > 0:
                x[j] = sv.lb[j] * draw(st.floats(0.05, 0.9))
            else:
                x[j] = -draw(st.floats(0.05, 0.5)) * sv.range[j]
            rows.append(dict(b=sv.predict(x).tolist(), kind="below_lb", x=x.tolist()))
        elif kind == "dark":
            # exactly the (transformed) baseline: nothing to add - with lb > 0 this is still not "all sources off"
            rows.append(dict(b=np.asarray(sv.basep, dtype=float).tolist(), kind="dark"))
        elif kind == "below":
            v = np.asarray(draw(gens.array((m,), 0.0, 1.0, styles=("raw", "sparse"))))
            if not np.any(v > 0):
                v[0] = 0.5
            b = sv.basep - v * max(1.0, float(np.max(np.abs(sv.basep))))
            rows.append(dict(b=b.tolist(), kind="below"))
        elif kind == "scaled_out":
            mg = draw(st.floats(0.05, 0.45))
            u = np.asarray(draw(gens.array((n,), mg, 1.0 - mg, styles=("raw",))))
            x = sv.lb + u * sv.range
            f = draw(st.floats(1.5, 6.0))
            b = sv.basep + f * (sv.predict(x) - sv.basep) + draw(st.floats(0.0, 1.0)) * sv.extent
            rows.append(dict(b=b.tolist(), kind="scaled_out"))
        else:  # random finite vector in [1, 100]^m-ish
            b = np.asarray(draw(gens.array((m,), 0.0, 100.0, styles=("raw", "int"))))
            rows.append(dict(b=b.tolist(), kind="random"))
    # well-scaled regime: targets stay within ~1..100 capture units (out-of-gamut ones are pulled back towards the baseline)
    for r in rows:
        if r["kind"] in ("outside", "scaled_out", "near_out"):
            b = np.asarray(r["b"], dtype=float)
            top = float(np.max(np.abs(b - sv.basep)))
            cap = max(150.0, 1.5 * sv.extent)
            if top > cap:
                r["b"] = (sv.basep + (b - sv.basep) * (cap / top)).tolist()
    return rows


# ------------------------------------------------------------------------------------------------
# estimator-level systems (filters / sources on a domain)


@st.composite
def spectra(draw, k, nd, x):
    """k non-negative smooth-ish rows on the domain x: Gaussian bumps (own formula) or random non-negative arrays."""
    style = draw(st.sampled_from(["bump", "bump", "random"]))
    lo, hi = x[0], x[-1]
    span = (hi - lo) or 1.0
    if style == "bump":
        cs = draw(st.lists(st.floats(0.0, 1.0), min_size=k, max_size=k))
        ws = draw(st.lists(st.floats(0.05, 0.5), min_size=k, max_size=k))
        amp = draw(st.lists(st.floats(0.2, 2.0), min_size=k, max_size=k))
        return [[a * math.exp(-(((v - lo) / span - c) / w) ** 2) for v in x] for c, w, a in zip(cs, ws, amp)]
    return draw(gens.array((k, nd), 0.0, 2.0, styles=("raw", "sparse")))


@st.composite
def estimator_system(draw, nf=(2, 5), ns=(1, 8), nd=(5, 40), K_kinds=("none", "scalar", "vector", "matrix"),
                     base_kinds=("none", "scalar", "vector"), bounds=True):
    n_d = draw(st.integers(*nd))
    dk = draw(st.sampled_from(["step", "uniform", "nonuniform"]))
    if dk == "step":
        domain = draw(st.sampled_from([1.0, 0.5, 2.0, 5.0, 10.0]))
        x = [k * domain for k in range(n_d)]
    else:
        domain = draw(gens.ascending_domain(n_d, uniform=(dk == "uniform"), lo_gap=0.1, hi_gap=20.0))
        x = domain
    f = draw(st.integers(*nf))
    s = draw(st.integers(*ns))
    filters = draw(spectra(f, n_d, x))
    sources = draw(spectra(s, n_d, x))
    kk = draw(st.sampled_from(K_kinds))
    if kk == "none":
        K = None
    elif kk == "scalar":
        K = draw(st.floats(0.2, 5.0))
    elif kk == "vector":
        K = draw(gens.array((f,), 0.2, 5.0, styles=("raw",)))
    else:
        P = np.asarray(draw(gens.array((f, f), -0.3, 0.3, styles=("raw",)))).reshape(f, f)
        K = (np.eye(f) * draw(st.floats(0.5, 2.0)) + P * (1 - np.eye(f)) / max(1, f - 1)).tolist()
    bk = draw(st.sampled_from(base_kinds))
    baseline = None if bk == "none" else (draw(gens.scalar(0.0, 5.0, tiny=1e-3)) if bk == "scalar" else draw(gens.array((f,), 0.0, 5.0, tiny=1e-3)))
    out = dict(filters=filters, sources=sources, domain=domain, K=K, baseline=baseline)
    if bounds:
        ub = draw(st.one_of(st.none(), gens.array((s,), 0.05, 10.0, styles=("raw",))))
        lb = draw(st.one_of(st.none(), st.just([0.0] * s)))
        if ub is not None and draw(st.integers(0, 3)) == 0:
            fr = draw(gens.array((s,), 0.0, 0.6, styles=("raw",), tiny=1e-2))
            lb = [float(a) * float(b) for a, b in zip(fr, ub)]
        out.update(lb=lb, ub=ub)
    return out


def build_estimator(case, register=True):
    import dreye

    dom = case["domain"]
    dom = np.asarray(dom, dtype=float) if isinstance(dom, list) else float(dom)
    kw = {}
    if case.get("K") is not None:
        kw["K"] = case["K"] if np.ndim(case["K"]) == 0 else np.asarray(case["K"], dtype=float)
    if case.get("baseline") is not None:
        kw["baseline"] = case["baseline"] if np.ndim(case["baseline"]) == 0 else np.asarray(case["baseline"], dtype=float)
    est = dreye.ReceptorEstimator(np.asarray(case["filters"], dtype=float), domain=dom, **kw)
    if register:
        lb = None if case.get("lb") is None else np.asarray(case["lb"], dtype=float)
        ub = None if case.get("ub") is None else np.asarray(case["ub"], dtype=float)
        est.register_system(np.asarray(case["sources"], dtype=float), lb=lb, ub=ub)
    return est


@st.composite
def proportional_variant(draw, sysd, one_in=5):
    """With probability 1/one_in, an under-determined system gets two sources with proportional captures (two LEDs of the same
    model, possibly at another drive level): some square sub-systems become exactly singular, the row rank stays full.
    Returns (system, changed)."""
    A = np.asarray(sysd["A"], dtype=float)
    m, n = A.shape
    if n <= m or draw(st.integers(0, one_in - 1)) != 0:
        return sysd, False
    j1 = draw(st.integers(0, n - 1))
    j2 = draw(st.integers(0, n - 2))
    j2 = j2 if j2 < j1 else j2 + 1
    A2 = A.copy()
    A2[:, j2] = A[:, j1] * draw(st.sampled_from([1.0, 1.0, 2.0, 0.5]))
    if np.linalg.matrix_rank(A2) < m:
        return sysd, False
    out = dict(sysd)
    out["A"] = A2.tolist()
    return out, True


@st.composite
def whole_number_bounds(draw, sysd, one_in=5):
    """With probability 1/one_in the (finite) bounds become whole numbers handed over as an integer-typed array or a list of ints
    (ub in 1..5, lb 0 or 1 where it was positive).  To be applied BEFORE targets are constructed from the system."""
    ub = sysd.get("ub")
    if ub is None or not np.all(np.isfinite(np.asarray(ub, dtype=float))) or draw(st.integers(0, one_in - 1)) != 0:
        return sysd, False
    n = len(sysd["A"][0])
    out = dict(sysd)
    out["ub"] = [float(draw(st.integers(2, 5))) for _ in range(n)]
    if sysd.get("lb") is not None:
        out["lb"] = [1.0 if v > 0 else 0.0 for v in np.broadcast_to(np.asarray(sysd["lb"], dtype=float), (n,))]
    out["bounds_form"] = draw(st.sampled_from(["int", "intlist"]))
    return out, True


def whole_number_model(sv):
    """K and baseline of a system rounded to whole numbers, as integer-typed and as float arguments of the function entries:
    (dict(K=int.., baseline=int..), dict(K=float.., baseline=float..)); None for a matrix K (always float)."""
    if sv.K_raw is not None and np.ndim(sv.K_raw) >= 2:
        return None
    Ki = None if sv.K_raw is None else np.atleast_1d(np.maximum(1, np.round(np.asarray(sv.K_raw, dtype=float))).astype(np.int64))
    bi = np.int64(0) if sv.base_raw is None else np.round(np.asarray(sv.base_raw, dtype=float) / sv.extent * 10.0).astype(np.int64)
    if np.ndim(bi) == 0:
        bi = int(bi)
    flt = lambda v: None if v is None else (float(v) if np.ndim(v) == 0 else np.asarray(v, dtype=float))
    return dict(K=Ki, baseline=bi), dict(K=flt(Ki), baseline=flt(bi))
