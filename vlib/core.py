"""Core vocabulary of the verification harness.

A *sub-check* is one generated test: a Hypothesis strategy producing a plain-JSON case and a
``body(case)`` that converts it to arrays, calls dreye, evaluates an oracle and raises ``Violation``.
``body`` returns an iterable of labels; labels starting with ``nt:`` mark the case as non-trivial.
"""
from __future__ import annotations

import hashlib
import json
import os
import traceback
from contextlib import contextmanager
from dataclasses import dataclass, field
from typing import Any, Callable, Iterable, Optional

REPO = os.environ.get("DREYE_REPO", "/repo")


class Violation(Exception):
    """The property does not hold on this case (as judged by the oracle)."""

    def __init__(self, label: str, message: str = "", observed: Any = None, exact: bool = False):
        super().__init__(f"{label}: {message}")
        self.label = label          # bucket key inside the sub-check
        self.message = message
        self.observed = observed    # JSON-able detail for the replay file
        # exact = the oracle compares two runs of the same solver on the same problem (two routes to one call): an unconverged
        # solver cannot excuse a difference, so the runner never qualifies such a violation as "explicit-solver-unconverged"
        self.exact = exact


class HarnessError(Exception):
    """The harness (generator, oracle) failed; never reported as a violation."""


def _innermost_dreye_frame(tb) -> str:
    frames = traceback.extract_tb(tb)
    best = None
    for fr in frames:
        fn = fr.filename.replace("\\", "/")
        if "/dreye/" in fn and "/verif/" not in fn:
            best = fr
    if best is None:
        return "outside-dreye"
    return f"{os.path.basename(best.filename)}:{best.name}"


@contextmanager
def calling(what: str, allow: tuple = ()):
    """Wrap a call into dreye: any exception (except those in ``allow``) is a violation
    bucketed by exception type and innermost dreye frame."""
    try:
        yield
    except Violation:
        raise
    except allow:
        raise
    except (KeyboardInterrupt, SystemExit, MemoryError):
        raise
    except BaseException as e:  # noqa: BLE001 - this is the point
        frame = _innermost_dreye_frame(e.__traceback__)
        if frame == "outside-dreye" and type(e).__module__.startswith("hypothesis"):
            raise
        raise Violation(
            f"exception:{type(e).__name__}@{frame}",
            f"{what} raised {type(e).__name__}: {str(e)[:300]}",
        ) from e


def check(cond: bool, label: str, message: str = "", observed: Any = None):
    if not cond:
        raise Violation(label, message, observed)


def canon(case: Any) -> str:
    return json.dumps(case, sort_keys=True, separators=(",", ":"), allow_nan=True)


def case_hash(case: Any) -> int:
    return int.from_bytes(hashlib.sha1(canon(case).encode()).digest()[:8], "big")


@dataclass
class Sub:
    name: str
    strategy: Any
    body: Callable[[dict], Optional[Iterable[str]]]
    quick: int = 300
    thorough: int = 10000
    quick_shards: int = 1
    thorough_shards: int = 16
    # minimum share of non-trivial cases; below it the run is a harness error (vacuity guard)
    min_nt_share: float = 0.05
    # labels that must be seen at least once in a run (all shards together)
    require_labels: tuple = ()
    # optional: fixed list of cases (exhaustive enumeration) instead of a strategy
    enumerate_cases: Optional[Callable[[str], list]] = None
    # bodies that are deterministic enumerations are flagged exhaustive in the evidence
    doc: str = ""


@dataclass
class Prop:
    pid: str
    title: str
    subs: list
    rule: str                      # generator + non-triviality rule, for the evidence file
    assumptions: list = field(default_factory=list)
    predicates: dict = field(default_factory=dict)   # name -> fn(case) -> bool, for known findings
    level: str = "exploration"


def _snap(v):
    import numpy as _np

    if isinstance(v, _np.ndarray):
        return (v.shape, str(v.dtype), v.tobytes())
    if hasattr(v, "__dict__") and not isinstance(v, type):
        # an estimator: its public attributes (private ones may cache)
        return {k: _snap(x) if isinstance(x, _np.ndarray) else repr(x) for k, x in sorted(vars(v).items()) if not k.startswith("_")}
    return repr(v)


@contextmanager
def unchanged(label, **objs):
    """the caller's arrays and the estimator's registered state are the same after the block as before it"""
    before = {k: _snap(v) for k, v in objs.items()}
    yield
    for k, v in objs.items():
        after = _snap(v)
        if after != before[k]:
            which = k
            if isinstance(after, dict):
                which = k + "." + ",".join(a for a in after if after[a] != before[k].get(a))
            raise Violation(f"{label}:modified:{which}", f"the call modified {which} (an argument of the caller / the registered state of the estimator)")
