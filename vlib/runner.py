"""Tier/seed handling, sharding, collect-then-shrink, evidence + replay writing, exit codes.

Exit codes: 0 held (possibly KNOWN-FINDING lines), 1 unlisted violation(s), 2 harness error.
"""
from __future__ import annotations

import glob
import importlib
import json
import multiprocessing as mp
import os
import sys
import time
import traceback
from collections import Counter

VERIF = os.path.dirname(os.path.dirname(os.path.abspath(__file__)))

MODULES = {
    "C01": "props.c01_capture",
    "C02": "props.c02_system",
    "C03": "props.c03_membership",
    "C04": "props.c04_fit",
    "C05": "props.c05_batch",
    "C06": "props.c06_range",
    "C07": "props.c07_models",
    "C08": "props.c08_underdetermined",
    "C09": "props.c09_variance",
    "C10": "props.c10_adaptive",
    "C11": "props.c11_decomposition",
    "C12": "props.c12_scaling",
    "C13": "props.c13_sampling",
    "C14": "props.c14_histories",
    "C15": "props.c15_units",
    "C16": "props.c16_coords",
    "C17": "props.c17_project",
    "C18": "props.c18_metrics",
    "C19": "props.c19_domain",
    "C20": "props.c20_units",
}

MAX_BUCKETS = 4          # root-cause buckets collected per sub-check and shard
SHRINK_BUDGET = {"quick": 250, "thorough": 1500}
SHRINK_SECONDS = {"quick": 20, "thorough": 120}
SAMPLES_PER_SUB = 2


def _setup_env():
    os.environ.setdefault("PYTHONHASHSEED", "0")
    os.environ.setdefault("OMP_NUM_THREADS", "1")
    os.environ.setdefault("OPENBLAS_NUM_THREADS", "1")
    os.environ.setdefault("MKL_NUM_THREADS", "1")
    os.environ.setdefault("MPLBACKEND", "Agg")
    os.environ.setdefault("DREYE_VERIF", "1")
    repo = os.environ.get("DREYE_REPO")
    if repo:
        sys.path.insert(0, repo)
    if VERIF not in sys.path:
        sys.path.insert(0, VERIF)


def load_prop(pid):
    mod = importlib.import_module(MODULES[pid])
    return mod.PROP


# ------------------------------------------------------------------------------------------------
# known findings


def load_known(pid):
    path = os.path.join(VERIF, "known_findings.json")
    if not os.path.exists(path):
        return []
    with open(path) as fh:
        data = json.load(fh)
    return [f for f in data.get("findings", []) if f.get("property") == pid and f.get("status") == "open"]


def match_known(known, prop, sub_name, label, case):
    for k in known:
        if k.get("subcheck") not in (None, "*", sub_name):
            continue
        kl = k.get("label")
        if kl and not (label == kl or (kl.endswith("*") and label.startswith(kl[:-1])) or (kl.startswith("*") and label.endswith(kl[1:]))):
            continue
        pred = k.get("predicate")
        if pred:
            fn = prop.predicates.get(pred)
            if fn is None:
                continue
            try:
                if not fn(case):
                    continue
            except Exception:
                continue
        return k
    return None


# ------------------------------------------------------------------------------------------------
# one job = one (sub-check, shard)


def _small(case, limit=6000):
    s = json.dumps(case, allow_nan=True)
    if len(s) <= limit:
        return case
    return {"_truncated_json": s[:limit] + "..."}


def run_job(args):
    pid, sub_name, tier, seed_val, n_examples, time_limit = args
    _setup_env()
    import warnings

    warnings.simplefilter("ignore")
    from hypothesis import HealthCheck, Phase, given, seed, settings
    import hypothesis.errors as herr

    try:  # bound the shrink phase (Hypothesis' own cap is 300 s per failure); internal constant of the pinned 6.168
        import hypothesis.internal.conjecture.engine as _eng

        _eng.MAX_SHRINKING_SECONDS = SHRINK_SECONDS[tier]
    except Exception:
        pass

    from vlib.core import HarnessError, Violation, canon, case_hash
    from vlib import hooks

    t0 = time.time()
    out = dict(
        sub=sub_name, evaluations=0, nt_hashes=[], all_hashes_n=0, labels={}, samples=[], failures=[],
        known_hits={}, known_examples={}, harness_error=None, wall=0.0, skipped_time=0, exhaustive=False,
        muted_counts={},
    )
    try:
        prop = load_prop(pid)
        sub = next(s for s in prop.subs if s.name == sub_name)
        known = load_known(pid)
    except Exception:
        out["harness_error"] = "load: " + traceback.format_exc()
        return out

    labels = Counter()
    hook_counts = Counter()
    nt = set()
    allh = set()
    known_hits = Counter()
    muted = set()
    muted_counts = Counter()
    st = dict(first_label=None, fails_after=0, failed_canon=set(), last_fail=None, timed_out=False)

    def evaluate(case, record=True):
        """returns None, or raises Violation for an unlisted, unmuted failure."""
        out["evaluations"] += 1
        hooks.reset()
        try:
            labs = sub.body(case)
        except Violation as v:
            if hooks.unconverged_explicit() and not getattr(v, "exact", False):
                # the caller-chosen solver hit its iteration limit and dreye returned the unconverged iterate (known finding class)
                v.label = v.label + ":explicit-solver-unconverged"
            if v.label in muted:
                muted_counts[v.label] += 1
                return
            k = match_known(known, prop, sub_name, v.label, case)
            if k is not None:
                known_hits[k["id"]] += 1
                out["known_examples"].setdefault(k["id"], _small(case))
                return
            raise
        for ev_kind, ev in hooks.raw():
            if ev_kind == "solve":
                hook_counts[f"solve:{ev.get('solver')}:{ev.get('status')}"] += 1
            elif ev_kind == "in_hull":
                hook_counts[f"in_hull:{ev.get('path')}"] += 1
            elif ev_kind == "batch":
                hook_counts["batch:padded" if ev.get("padded") else "batch:full"] += 1
            elif ev_kind == "range_of_solutions":
                hook_counts["range:none-accepted" if ev.get("accepted") == 0 else "range:accepted"] += 1
            elif ev_kind == "decomposition":
                hook_counts[f"decomposition:{ev.get('stage')}"] += 1
            else:
                hook_counts[ev_kind] += 1
        if record:
            h = case_hash(case)
            allh.add(h)
            isnt = False
            for lab in (labs or ()):
                labels[lab] += 1
                if lab.startswith("nt:"):
                    isnt = True
            if isnt:
                if h not in nt and len(out["samples"]) < SAMPLES_PER_SUB:
                    out["samples"].append({"subcheck": sub_name, "labels": sorted(set(labs)), "case": _small(case)})
                nt.add(h)

    def wrapper(case):
        if time_limit and (time.time() - t0) > time_limit and st["first_label"] is None:
            st["timed_out"] = True
            out["skipped_time"] += 1
            return
        if st["first_label"] is not None:
            st["fails_after"] += 1
            if st["fails_after"] > SHRINK_BUDGET[tier] and canon(case) not in st["failed_canon"]:
                return
        try:
            evaluate(case)
        except Violation as v:
            if st["first_label"] is None:
                st["first_label"] = v.label
            if v.label != st["first_label"]:
                return  # another bucket: found again in the next round
            st["failed_canon"].add(canon(case))
            st["last_fail"] = (v, case)
            raise

    try:
        if sub.enumerate_cases is not None:
            out["exhaustive"] = True
            cases = sub.enumerate_cases(tier)
            # shard the enumeration
            shard_idx, n_shards = n_examples  # (index, count) for enumerations
            for i, case in enumerate(cases):
                if i % n_shards != shard_idx:
                    continue
                try:
                    evaluate(case)
                except Violation as v:
                    if sum(1 for f in out["failures"] if f["label"] == v.label) == 0:
                        out["failures"].append(dict(label=v.label, message=v.message, case=case, observed=v.observed))
                    muted.add(v.label)
        else:
            phases = [Phase.explicit, Phase.generate, Phase.target, Phase.shrink]
            for _round in range(MAX_BUCKETS):
                st.update(first_label=None, fails_after=0, failed_canon=set(), last_fail=None)
                test = seed(seed_val)(
                    settings(
                        max_examples=n_examples,
                        database=None,
                        deadline=None,
                        derandomize=False,
                        report_multiple_bugs=False,
                        print_blob=False,
                        phases=phases,
                        suppress_health_check=[HealthCheck.too_slow, HealthCheck.data_too_large],
                    )(given(sub.strategy)(wrapper))
                )
                try:
                    test()
                except Violation as v:
                    vv, case = st["last_fail"] if st["last_fail"] else (v, None)
                    out["failures"].append(dict(label=vv.label, message=vv.message, case=case, observed=vv.observed))
                    muted.add(vv.label)
                    # next round needs fewer examples: the first one already covered the space
                    continue
                except herr.FailedHealthCheck as e:
                    out["harness_error"] = f"health check: {e}"
                except herr.Flaky as e:
                    out["harness_error"] = f"flaky: {e}\n" + traceback.format_exc()
                break
    except HarnessError:
        out["harness_error"] = traceback.format_exc()
    except Exception:
        out["harness_error"] = traceback.format_exc()

    out["labels"] = dict(labels)
    out["hook_counts"] = dict(hook_counts)
    out["nt_hashes"] = list(nt)
    out["all_hashes_n"] = len(allh)
    out["known_hits"] = dict(known_hits)
    out["muted_counts"] = dict(muted_counts)
    out["timed_out"] = st["timed_out"]
    out["wall"] = time.time() - t0
    return out


# ------------------------------------------------------------------------------------------------
# replay


def run_replay_file(prop, path):
    """returns (status, info): status in {'pass','fail','known','error'}"""
    from vlib.core import Violation

    with open(path) as fh:
        rep = json.load(fh)
    sub = next((s for s in prop.subs if s.name == rep["subcheck"]), None)
    if sub is None:
        return "error", f"unknown subcheck {rep['subcheck']}"
    from vlib import hooks

    hooks.reset()
    try:
        sub.body(rep["case"])
    except Violation as v:
        if hooks.unconverged_explicit() and not getattr(v, "exact", False):
            v.label = v.label + ":explicit-solver-unconverged"
        k = match_known(load_known(prop.pid), prop, sub.name, v.label, rep["case"])
        if k is not None:
            return "known", k
        return "fail", v
    except Exception:
        return "error", traceback.format_exc()
    return "pass", None


def write_replay(pid, sub_name, failure, seed_val, tier):
    from vlib.core import case_hash

    d = os.path.join(VERIF, "replays", "found", pid)
    os.makedirs(d, exist_ok=True)
    h = case_hash(failure["case"]) % (16 ** 8)
    lab = "".join(c if c.isalnum() else "_" for c in failure["label"])[:60]
    path = os.path.join(d, f"{sub_name}-{lab}-{h:08x}.json")
    with open(path, "w") as fh:
        json.dump(
            dict(property=pid, subcheck=sub_name, label=failure["label"], message=failure["message"],
                 observed=failure.get("observed"), seed=seed_val, tier=tier, case=failure["case"]),
            fh, indent=1, allow_nan=True, default=str,
        )
    return path


# ------------------------------------------------------------------------------------------------
# main


def main(argv=None):
    import argparse

    _setup_env()
    ap = argparse.ArgumentParser()
    ap.add_argument("pid")
    ap.add_argument("--tier", default=os.environ.get("VERIF_TIER", "quick"), choices=["quick", "thorough"])
    ap.add_argument("--replay", default=None)
    ap.add_argument("--only", default=None, help="comma list of sub-checks (debugging; evidence not written)")
    ap.add_argument("--scale", type=float, default=1.0, help="scale example counts (debugging)")
    ap.add_argument("--procs", type=int, default=int(os.environ.get("VERIF_PROCS", "16")))
    a = ap.parse_args(argv)
    pid = a.pid.upper()
    try:
        seed_val = int(os.environ.get("VERIF_SEED", "1"))
    except ValueError:
        seed_val = 1

    import warnings

    warnings.simplefilter("ignore")
    t0 = time.time()
    try:
        prop = load_prop(pid)
    except Exception:
        traceback.print_exc()
        print(f"HARNESS-ERROR property={pid} cannot load property module")
        return 2

    if a.replay:
        status, info = run_replay_file(prop, a.replay)
        if status == "fail":
            print(f"replay fails: {info}")
            print(f"VIOLATION property={pid} replay={a.replay}")
            return 1
        if status == "known":
            print(f"KNOWN-FINDING: property={pid} {info['what']}")
            return 0
        if status == "error":
            print(info)
            return 2
        print("replay passes")
        return 0

    known = load_known(pid)
    violations = []   # (sub, label, path)
    known_seen = Counter()
    harness_errors = []

    # 1. committed regression corpus
    n_replays = 0
    for path in sorted(glob.glob(os.path.join(VERIF, "replays", pid, "*.json"))):
        n_replays += 1
        status, info = run_replay_file(prop, path)
        if status == "fail":
            violations.append((os.path.basename(path), info.label, path, info.message))
        elif status == "known":
            known_seen[info["id"]] += 1
        elif status == "error":
            harness_errors.append(f"replay {path}: {info}")

    # 2. generated search
    subs = prop.subs
    if a.only:
        names = set(a.only.split(","))
        unknown = names - {s.name for s in subs}
        if unknown:
            print(f"HARNESS-ERROR: unknown sub-check(s) {sorted(unknown)}; available: {[s.name for s in subs]}")
            return 2
        subs = [s for s in subs if s.name in names]
    jobs = []
    for s in subs:
        n_total = max(1, int((s.quick if a.tier == "quick" else s.thorough) * a.scale))
        shards = s.quick_shards if a.tier == "quick" else s.thorough_shards
        shards = max(1, min(shards, n_total))
        tl = None if a.tier == "quick" else float(os.environ.get("VERIF_SHARD_TIME", "3000"))
        for sh in range(shards):
            if s.enumerate_cases is not None:
                jobs.append((pid, s.name, a.tier, seed_val, (sh, shards), tl))
            else:
                jobs.append((pid, s.name, a.tier, seed_val * 1000 + sh, -(-n_total // shards), tl))
    # longest first
    results = []
    if jobs:
        try:  # import once in the parent so that forked workers share it
            import dreye  # noqa: F401
        except Exception:
            traceback.print_exc()
            print(f"HARNESS-ERROR property={pid} cannot import dreye from the working tree")
            return 2
        nproc = max(1, min(a.procs, len(jobs)))
        if nproc == 1:
            results = [run_job(j) for j in jobs]
        else:
            ctx = mp.get_context("fork")
            budget = float(os.environ.get("VERIF_WALL_LIMIT", "1500" if a.tier == "quick" else "21600"))
            with ctx.Pool(nproc, maxtasksperchild=1) as pool:
                it = pool.imap_unordered(run_job, jobs, chunksize=1)
                try:
                    for _ in range(len(jobs)):
                        results.append(it.next(timeout=max(1.0, budget - (time.time() - t0))))
                except mp.TimeoutError:
                    # a time budget hit means inconclusive (exit 2), never a violation
                    pool.terminate()
                    harness_errors.append(f"wall-clock limit of {budget:.0f}s hit with {len(jobs) - len(results)} of {len(jobs)} jobs unfinished (inconclusive)")

    per_sub = {}
    nt_all = set()
    labels_all = Counter()
    samples = []
    evaluations = 0
    timed_out = 0
    hook_total = Counter()
    exhaustive_subs = []
    for r in results:
        d = per_sub.setdefault(r["sub"], dict(evaluations=0, nontrivial=set(), distinct=0, labels=Counter(), wall=0.0, shards=0))
        d["evaluations"] += r["evaluations"]
        d["nontrivial"].update((r["sub"], h) for h in r["nt_hashes"])
        d["distinct"] += r["all_hashes_n"]
        d["labels"].update(r["labels"])
        hook_total.update(r.get("hook_counts", {}))
        d["wall"] = max(d["wall"], r["wall"])
        d["shards"] += 1
        evaluations += r["evaluations"]
        nt_all.update((r["sub"], h) for h in r["nt_hashes"])
        for k, v in r["labels"].items():
            labels_all[f"{r['sub']}/{k}"] += v
        if len([s for s in samples if s["subcheck"] == r["sub"]]) < SAMPLES_PER_SUB:
            samples.extend(r["samples"][: SAMPLES_PER_SUB])
        if r.get("timed_out"):
            timed_out += 1
        if r.get("exhaustive") and r["sub"] not in exhaustive_subs:
            exhaustive_subs.append(r["sub"])
        if r["harness_error"]:
            harness_errors.append(f"{r['sub']}: {r['harness_error']}")
        for kid, n in r["known_hits"].items():
            known_seen[kid] += n
        for f in r["failures"]:
            if f["case"] is None:
                harness_errors.append(f"{r['sub']}: failure without case: {f}")
                continue
            if any(v[0] == r["sub"] and v[1] == f["label"] for v in violations):
                continue
            path = write_replay(pid, r["sub"], f, seed_val, a.tier)
            violations.append((r["sub"], f["label"], path, f["message"]))

    # 3. vacuity guards
    sub_by_name = {s.name: s for s in prop.subs}
    for name, d in per_sub.items():
        s = sub_by_name[name]
        if any(v[0] == name for v in violations):
            continue
        if d["evaluations"] and s.min_nt_share > 0:
            # share measured over distinct generated cases
            share = len(d["nontrivial"]) / max(1, d["distinct"])
            if share < s.min_nt_share:
                harness_errors.append(
                    f"{name}: non-trivial share {share:.3f} below required {s.min_nt_share} (generator too weak)")
        for lab in s.require_labels:
            if d["labels"].get(lab, 0) == 0:
                harness_errors.append(f"{name}: required label '{lab}' never produced")

    wall = time.time() - t0
    # 4. evidence
    if not a.only and not os.environ.get("VERIF_NO_EVIDENCE"):
        ev = dict(
            property_id=pid,
            tier=a.tier,
            seed=seed_val,
            level=prop.level,
            coverage=dict(
                evaluations=int(evaluations + n_replays),
                distinct_nontrivial=int(len(nt_all)),
                rule=prop.rule,
                samples=samples[: 2 * len(prop.subs) + 2] or [{"note": "no non-trivial sample recorded"}],
                exhaustive=bool(exhaustive_subs) and len(exhaustive_subs) == len(per_sub),
                exhaustive_subchecks=exhaustive_subs,
                per_subcheck={
                    k: dict(evaluations=v["evaluations"], distinct_cases=v["distinct"],
                            distinct_nontrivial=len(v["nontrivial"]), shards=v["shards"],
                            labels=dict(sorted(v["labels"].items())), wall_s=round(v["wall"], 2))
                    for k, v in sorted(per_sub.items())
                },
                replays_run=n_replays,
                known_finding_hits=dict(known_seen),
                hook_trace_summary=dict(sorted(hook_total.items())),
                inconclusive_shards=timed_out,
                harness_errors=len(harness_errors),
            ),
            assumptions=prop.assumptions,
            wall_s=round(wall, 2),
            violations=len(violations),
        )
        os.makedirs(os.path.join(VERIF, "evidence"), exist_ok=True)
        tmp = os.path.join(VERIF, "evidence", f"{pid}.json.tmp")
        with open(tmp, "w") as fh:
            json.dump(_sanitize(ev), fh, indent=1, allow_nan=False, default=_json_default)
        os.replace(tmp, os.path.join(VERIF, "evidence", f"{pid}.json"))

    # 5. report
    for k in known:
        if known_seen.get(k["id"], 0) > 0:
            print(f"KNOWN-FINDING: property={pid} {k['what']} [{k['id']}; hits={known_seen[k['id']]}]")
    for name, d in sorted(per_sub.items()):
        print(f"  {pid}/{name}: evaluations={d['evaluations']} distinct={d['distinct']} "
              f"nontrivial={len(d['nontrivial'])} wall={d['wall']:.1f}s")
    if violations:
        for sub_name, label, path, msg in violations:
            print(f"  violation in {sub_name}: {label}: {msg[:400]}")
            print(f"VIOLATION property={pid} replay={path}")
        return 1
    if harness_errors:
        for h in harness_errors:
            print(f"HARNESS-ERROR property={pid} {h}")
        return 2
    print(f"OK property={pid} tier={a.tier} seed={seed_val} evaluations={evaluations + n_replays} "
          f"distinct_nontrivial={len(nt_all)} wall={wall:.1f}s")
    return 0


def _sanitize(o):
    """non-finite floats are not valid JSON: write them as strings in the evidence"""
    import math

    if isinstance(o, float) and not math.isfinite(o):
        return repr(o)
    if isinstance(o, dict):
        return {str(k): _sanitize(v) for k, v in o.items()}
    if isinstance(o, (list, tuple)):
        return [_sanitize(v) for v in o]
    return o


def _json_default(o):
    import numpy as np

    if isinstance(o, (np.integer,)):
        return int(o)
    if isinstance(o, (np.floating,)):
        return float(o)
    if isinstance(o, np.ndarray):
        return o.tolist()
    return str(o)


if __name__ == "__main__":
    sys.exit(main())
