"""Reader for the trace produced by the DREYE_VERIF hooks (dreye/api/_verif.py). Evidence and localisation only:
no oracle depends on it, except (i) the qualification of violations that coincide with an unconverged, explicitly requested solver
(never applied to violations raised with exact=True), (ii) C11's descent clause, (iii) C08's accuracy band for answers of the SCS fallback."""
from __future__ import annotations

CONVERGED = ("optimal", "optimal_inaccurate")


def _mod():
    try:
        from dreye.api import _verif
        return _verif
    except Exception:
        return None


def available():
    m = _mod()
    return bool(m is not None and getattr(m, "ENABLED", False))


def reset():
    m = _mod()
    if m is not None:
        m.reset()


def events(kind=None):
    m = _mod()
    if m is None:
        return []
    return [f for k, f in list(m.TRACE) if kind is None or k == kind]


def unconverged_explicit():
    """True if some solve since the last reset used an explicitly requested solver that did not report convergence."""
    # for a solver the caller asked for, "optimal_inaccurate" also means that it gave up before reaching its tolerances
    # "infeasible"/"unbounded" are definite answers of the solver, not a failure to converge
    gave_up = ("user_limit", "optimal_inaccurate", "solver_error", "infeasible_inaccurate", "unbounded_inaccurate", "unknown", None)
    return any(e.get("requested") is not None and e.get("status") in gave_up for e in events("solve"))


def raw():
    m = _mod()
    return [] if m is None else list(m.TRACE)
