#!/venv/bin/python
"""append an entry to known_findings.json (developer tool; never used by checks)
usage: kf_add.py ID PROPERTY STATUS COMMIT SUBCHECK LABEL PREDICATE WHAT [replay ...]"""
import json, sys
fid, prop, status, commit, sub, label, pred, what = sys.argv[1:9]
replays = sys.argv[9:]
p = "/verif/known_findings.json"
d = json.load(open(p))
d["findings"] = [f for f in d["findings"] if f["id"] != fid]
e = dict(id=fid, property=prop, status=status, commit=(commit or None), subcheck=sub, label=(label or None),
         predicate=(pred or None), what=what, replays=replays)
if status == "fixed":
    e["line"] = f"fixed: property={prop} {commit} {what}"
d["findings"].append(e)
json.dump(d, open(p, "w"), indent=1)
print("ok", fid)
