#!/bin/sh
# developer convenience: run every property's check at the given tier, print one summary line each
# usage: tools/run_all.sh quick|thorough [seed]
cd "$(dirname "$0")/.." || exit 2
TIER=${1:-quick}; export VERIF_SEED=${2:-1}
for p in C01 C02 C03 C04 C05 C06 C07 C08 C09 C10 C11 C12 C13 C14 C15 C16 C17 C18 C19 C20; do
  start=$(date +%s)
  ./check $p --tier $TIER > /tmp/run_all_${TIER}_${VERIF_SEED}_$p.log 2>&1; rc=$?
  echo "$p rc=$rc $(( $(date +%s) - start ))s $(grep -c '^VIOLATION' /tmp/run_all_${TIER}_${VERIF_SEED}_$p.log) violations; $(tail -1 /tmp/run_all_${TIER}_${VERIF_SEED}_$p.log | cut -c1-160)"
  if [ $rc -ne 0 ]; then grep -E "violation in|HARNESS-ERROR|KNOWN" /tmp/run_all_${TIER}_${VERIF_SEED}_$p.log | cut -c1-400 | head -8; fi
done
