#!/venv/bin/python
"""Confirm a sub-agent's seeded change and run the property's check against it.

usage: seeded.py <seed-id> <PID> <dir-with-patch.diff+demo.py[+notes.md]> [--tier quick] [--keep]
  1. fresh scratch worktree of /repo HEAD under /tmp
  2. demo.py on the clean tree -> must PASS (exit 0)
  3. git apply patch.diff; package imports; demo.py -> must FAIL; baseline tests keep passing
  4. ./check <PID> against the patched tree (DREYE_REPO) -> caught (exit 1) / missed (exit 0)
  5. copy patch/demo/notes to /verif/seeded/<seed-id>/ with meta.json; remove the worktree
Developer tool; not part of any registered check.
"""
import json, os, shutil, subprocess, sys, time

VERIF = os.path.dirname(os.path.dirname(os.path.abspath(__file__)))
sid, pid, src = sys.argv[1], sys.argv[2].upper(), sys.argv[3]
tier = "quick"
if "--tier" in sys.argv:
    tier = sys.argv[sys.argv.index("--tier") + 1]
wt = f"/tmp/sv_{sid}"
subprocess.run(["git", "-C", "/repo", "worktree", "remove", "--force", wt], capture_output=True)
shutil.rmtree(wt, ignore_errors=True)
r = subprocess.run(["git", "-C", "/repo", "worktree", "add", "-q", "--detach", wt, "HEAD"], capture_output=True, text=True)
assert r.returncode == 0, r.stderr
env = dict(os.environ, PYTHONPATH=wt, MPLBACKEND="Agg")
env.pop("DREYE_VERIF", None)
meta = dict(seed_id=sid, property=pid, repo_head=subprocess.run(["git", "-C", "/repo", "rev-parse", "--short", "HEAD"], capture_output=True, text=True).stdout.strip())


def demo():
    r = subprocess.run(["/venv/bin/python", "-W", "ignore", os.path.join(src, "demo.py")], cwd=wt, env=env, capture_output=True, text=True, timeout=1800)
    return r.returncode, (r.stdout + r.stderr)[-400:]


try:
    rc, out = demo()
    meta["demo_clean"] = dict(exit=rc, tail=out[-200:])
    r = subprocess.run(["git", "-C", wt, "apply", os.path.join(src, "patch.diff")], capture_output=True, text=True)
    meta["patch_applies"] = r.returncode == 0
    if r.returncode != 0:
        meta["patch_error"] = r.stderr[-300:]
    else:
        rc2, out2 = demo()
        meta["demo_patched"] = dict(exit=rc2, tail=out2[-200:])
        b = subprocess.run(["/venv/bin/python", os.path.join(VERIF, "tools", "baseline.py")], env=dict(os.environ, DREYE_REPO=wt, PYTHONPATH=wt), capture_output=True, text=True)
        meta["baseline_with_patch"] = b.stdout.strip().splitlines()[0] if b.stdout.strip() else b.stderr[-200:]
        meta["baseline_ok"] = b.returncode == 0
        t0 = time.time()
        c = subprocess.run([os.path.join(VERIF, "check"), pid, "--tier", tier], env=dict(os.environ, DREYE_REPO=wt, VERIF_NO_EVIDENCE="1"), capture_output=True, text=True)
        meta["check"] = dict(cmd=f"DREYE_REPO=<worktree with patch> ./check {pid} --tier {tier}", exit=c.returncode, wall_s=round(time.time() - t0, 1),
                             verdict={0: "MISSED", 1: "caught", 2: "harness-error"}.get(c.returncode, str(c.returncode)),
                             violations=[l.strip()[:300] for l in c.stdout.splitlines() if l.strip().startswith("violation in")][:6])
    meta["confirmed"] = bool(meta.get("demo_clean", {}).get("exit") == 0 and meta.get("patch_applies") and meta.get("demo_patched", {}).get("exit") not in (0, None) and meta.get("baseline_ok"))
    dst = os.path.join(VERIF, "seeded", sid)
    os.makedirs(dst, exist_ok=True)
    for f in ("patch.diff", "demo.py", "notes.md"):
        if os.path.exists(os.path.join(src, f)) and os.path.abspath(src) != os.path.abspath(dst):
            shutil.copy(os.path.join(src, f), os.path.join(dst, f))
    old = {}
    if os.path.exists(os.path.join(dst, "meta.json")):
        old = json.load(open(os.path.join(dst, "meta.json")))
    hist = old.get("history", [])
    if old.get("check"):
        hist.append(dict(repo_head=old.get("repo_head"), check=old.get("check")))
    meta["history"] = hist
    meta["needs_to_manifest"] = old.get("needs_to_manifest", "see notes.md")
    json.dump(meta, open(os.path.join(dst, "meta.json"), "w"), indent=1)
    print(json.dumps({k: meta[k] for k in ("seed_id", "property", "confirmed", "patch_applies") if k in meta}), meta.get("check", {}).get("verdict"), meta.get("check", {}).get("violations", [])[:2])
finally:
    subprocess.run(["git", "-C", "/repo", "worktree", "remove", "--force", wt], capture_output=True)
    shutil.rmtree(wt, ignore_errors=True)
    shutil.rmtree(os.path.join(VERIF, "replays", "found", pid), ignore_errors=True)
