#!/venv/bin/python
"""Run the repository's test-suite with the verification guard OFF and compare with BASELINE.json.

exit 0 iff every test in BASELINE.stable_pass passes."""
import json, os, subprocess, sys, tempfile
import xml.etree.ElementTree as ET

base = json.load(open("/root/.vp/BASELINE.json")) if os.path.exists("/root/.vp/BASELINE.json") else None
env = dict(os.environ)
env.pop("DREYE_VERIF", None)
env["MPLBACKEND"] = "Agg"
with tempfile.TemporaryDirectory() as d:
    xml = os.path.join(d, "junit.xml")
    subprocess.run(["/venv/bin/python", "-m", "pytest", "-q", "-p", "no:cacheprovider", "--timeout=900",
                    "--continue-on-collection-errors", f"--junitxml={xml}"], cwd=os.environ.get("DREYE_REPO", "/repo"),
                   env=env, stdout=subprocess.DEVNULL, stderr=subprocess.DEVNULL)
    passed = set()
    for tc in ET.parse(xml).getroot().iter("testcase"):
        if not any(ch.tag in ("failure", "error", "skipped") for ch in tc):
            passed.add(f"{tc.get('classname')}::{tc.get('name')}")
if base is None:
    print(f"passed={len(passed)} (no BASELINE.json to compare)")
    sys.exit(0)
missing = [t for t in base["stable_pass"] if t not in passed]
print(f"passed={len(passed)} baseline={len(base['stable_pass'])} missing={len(missing)}")
for m in missing:
    print("MISSING", m)
sys.exit(1 if missing else 0)
