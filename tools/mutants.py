#!/venv/bin/python
"""Sensitivity self-test: apply each small mutation from mutants/<PID>.json to a scratch copy of the repo
(outside /repo and /verif), run the property's quick check against it (DREYE_REPO), expect exit 1.
Not part of any registered check. usage: mutants.py PID [name-substring] [--tier quick]"""
import json, os, shutil, subprocess, sys, tempfile, time

VERIF = os.path.dirname(os.path.dirname(os.path.abspath(__file__)))
pid = sys.argv[1].upper()
flt = sys.argv[2] if len(sys.argv) > 2 and not sys.argv[2].startswith("--") else None
muts = json.load(open(os.path.join(VERIF, "mutants", f"{pid}.json")))
res = []
for m in muts:
    if flt and flt not in m["name"]:
        continue
    d = tempfile.mkdtemp(prefix="dreye_mut_", dir="/tmp")
    try:
        shutil.copytree("/repo/dreye", os.path.join(d, "dreye"), ignore=shutil.ignore_patterns("__pycache__", "datasets"))
        path = os.path.join(d, m["file"])
        src = open(path).read()
        if src.count(m["old"]) < 1:
            res.append((m["name"], "PATCH-DOES-NOT-APPLY", 0)); continue
        src = src.replace(m["old"], m["new"], m.get("count", 1))
        open(path, "w").write(src)
        env = dict(os.environ, DREYE_REPO=d, VERIF_NO_EVIDENCE="1")
        if "--baseline-only" in sys.argv:
            # realism check of the mutant itself: the 82 baseline tests must still pass with it
            shutil.copytree("/repo/tests", os.path.join(d, "tests"))
            for extra in ("setup.py", "README.md"):
                if os.path.exists(os.path.join("/repo", extra)):
                    shutil.copy(os.path.join("/repo", extra), d)
            b = subprocess.run(["/venv/bin/python", os.path.join(VERIF, "tools", "baseline.py")], env=dict(os.environ, DREYE_REPO=d, PYTHONPATH=d), capture_output=True, text=True)
            res.append((m["name"], "baseline-ok" if b.returncode == 0 else "BASELINE-BROKEN", 0.0, b.stdout.strip().splitlines()[:3]))
            continue
        t0 = time.time()
        args = [os.path.join(VERIF, "check"), pid, "--tier", "quick"]
        if m.get("only"):
            args += ["--only", m["only"]]
        r = subprocess.run(args, env=env, capture_output=True, text=True)
        verdict = {0: "MISSED", 1: "caught", 2: "HARNESS-ERROR"}.get(r.returncode, f"rc={r.returncode}")
        lines = [l for l in r.stdout.splitlines() if l.strip().startswith("violation in")]
        res.append((m["name"], verdict, time.time() - t0, lines[:2] if verdict == "caught" else r.stdout.splitlines()[-3:]))
    finally:
        shutil.rmtree(d, ignore_errors=True)
        shutil.rmtree(os.path.join(VERIF, "replays", "found", pid), ignore_errors=True)
for r in res:
    print(f"{pid} {r[0]:40s} {r[1]:14s} {r[2]:6.1f}s  {r[3] if len(r) > 3 else ''}"[:400])
bad = [r for r in res if r[1] not in ("caught", "baseline-ok")]
sys.exit(1 if bad else 0)
