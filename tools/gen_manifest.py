#!/venv/bin/python
"""Regenerate MANIFEST.json from the table below (kept in one place so that it always validates)."""
import json
import os
import subprocess

VERIF = os.path.dirname(os.path.dirname(os.path.abspath(__file__)))

# property id -> (technique, level text, level note, design ref)
CLAIMED = {
    "C01": (
        "Hypothesis property-based testing against a pure-Python fsum trapezoid oracle; metamorphic non-interference/linearity/step relations",
        "Generated-input search (thousands of shapes/domains per run, 16-way sharded in the thorough tier) against an independent exact-summation "
        "trapezoid; detects any index-order, spacing, broadcasting or linearity defect that manifests on n_domain<=40, <=5x5 filters/signals, <=2 batch axes.",
        "Trusts IEEE arithmetic, math.fsum and the harness's 40-line oracle; absence beyond the generated sizes is not shown.",
        "DESIGN.md section 6 C01",
    ),
    "C16": (
        "Hypothesis property-based testing of round-trip / algebraic laws (regular simplex, affine law, inverse, scale invariance; norm, angle ranges, both round trips); exhaustive over n for the simplex corners",
        "Generated point sets in dimension 2-12 incl. axis/plane/origin/zero-tail/negative points and magnitudes 1e-100..1e100 against own fsum norm and the "
        "algebraic identities; catches sign/recursion/centring/height defects of the transforms on every generated shape.",
        "Trusts IEEE arithmetic and the identities typed into the harness; arccos conditioning limits the round-trip tolerance to 1e-7*radius*d.",
        "DESIGN.md section 6 C16",
    ),
    "C20": (
        "Hypothesis property-based testing against the closed-form law with exact SI constants; round-trip, linearity, element-wise and plain-vs-quantity differential relations",
        "Generated scalars/1-D/N-D spectra with the wavelength on any axis, all prefixes, plain and pint inputs in several units, both directions, compared to "
        "I*lambda*1e-9/(h c N_A)/prefix at 1e-12 relative.",
        "Trusts the SI-2019 constants typed into the harness and pint's unit algebra for the independent unit-scale cross-check.",
        "DESIGN.md section 6 C20",
    ),
    "C19": (
        "Hypothesis property-based testing against an independent re-implementation of the overlap/step rule and binary-search linear interpolation; differential test of the estimator's capture path",
        "Generated tuples of 2-4 uniform/non-uniform/unsorted domains in every relation (nested, overlapping, touching, disjoint, identical, overlap shorter than a step), "
        "arrays of rank 1-3 with the domain on any axis (square shapes included), stack/concatenate; both directions of the contract (accepted => correct, disjoint => rejected).",
        "Trusts the harness's own interpolation and trapezoid; tolerance 1e-9 of the local magnitude; domains with gaps >= 1e-2.",
        "DESIGN.md section 6 C19",
    ),
    "C02": (
        "Hypothesis property-based testing against the harness's own trapezoid of the physically mixed spectrum and an explicit-loop K(Q+baseline); adaptation fixed-point identities",
        "Generated estimators (2-5 filters, 1-8 sources, scalar-step and array domains, K scalar/vector/matrix, baseline none/scalar/vector) with 1-D to 3-D intensity batches; "
        "non-square systems make transposition defects visible.",
        "Trusts the harness's trapezoid formula; tolerance 1e-10 of sum|terms|.",
        "DESIGN.md section 6 C02",
    ),
    "C03": (
        "Hypothesis property-based testing with constructed boundary/near-boundary targets against HiGHS LP oracles (x-space margin, inf-norm distance, convex-weight margin); both directions asserted outside a stated boundary band",
        "Generated well-scaled systems (2-5 x 1-8, lb zero/positive, ub finite/infinite, K scalar/vector/matrix, baseline) with targets built on zonotope facets/faces/vertices and at "
        "1e-9..1e-2 x extent on either side; iff for full-dimensional bounded gamuts, soundness+completeness in every configuration (unbounded, flat, dichromat), chromatic membership, explicit clouds.",
        "Trusts scipy HiGHS LP optima (1e-9); decisions within |margin| < 1e-6 of the boundary are tallied, not asserted.",
        "DESIGN.md section 6 C03",
    ),
    "C04": (
        "Hypothesis property-based testing against an active-set BVLS oracle and the HiGHS distance LP; constructed in/on/out-of-gamut and below-baseline targets; both solver settings named in the property",
        "Generated well-scaled systems (1-5 x 1-8, all K/baseline/weight shapes, finite and default bounds) x constructed targets through lsq_linear and ReceptorEstimator.fit; "
        "asserts no exception, bounds, optimality against BVLS in both directions, prediction = model, zero error iff in gamut, to the tolerances of the statement.",
        "Trusts scipy BVLS (1e-12 on these sizes) and HiGHS; defects smaller than the stated solver accuracy are invisible; '1 % of the bound range' is read per system (largest range).",
        "DESIGN.md section 6 C04",
    ),
    "C05": (
        "exhaustive small-scope enumeration of (n_samples x batch_size x procedure x configuration) plus Hypothesis-generated systems with row operations; metamorphic oracle = same call with batch_size=1",
        "Every cell of the grid n<=4 (7 thorough) x batch_size in {1..n_max+2,'full',None} x {gaussian, poisson, excitation, variance-minimisation} x {plain, K+baseline+weights} is executed; "
        "generated systems add random cells and permute/duplicate/drop/append row operations; high-accuracy pass-through exposes leakage above 1e-5.",
        "The batch_size=1 call is the reference (its correctness is C04/C07/C09); Poisson compared at 5e-3, excitation at 2e-2 (SCS bisection).",
        "DESIGN.md section 6 C05",
    ),
    "C06": (
        "Hypothesis property-based testing with constructed interior/facet/face/vertex/outside targets against 2n HiGHS extent LPs, BVLS and direct substitution of every spaced solution",
        "Generated under-determined systems (2-4 receptors, 1-3 surplus sources, lb zero/positive, K, baseline) x targets inside, on every kind of boundary face and outside; "
        "extents compared with LP optima (1e-7 of the range), all spaced solutions substituted back, error modes raise/warn/ignore checked against the best fit.",
        "Trusts HiGHS LP optima and BVLS; a boundary target may be rejected only if its LP margin is below 1e-9.",
        "DESIGN.md section 6 C06",
    ),
    "C07": (
        "Hypothesis property-based testing with the witness principle (L-BFGS-B minimisers of the weighted Poisson NLL) and an exact LP-bisection optimum for the excitation objective; in-gamut agreement of the three models",
        "Generated non-negative well-scaled systems, targets >= 0 in and out of gamut, baseline zero/non-zero, K scalar/vector; NLL(x_code) <= NLL(feasible witness) + tol, "
        "max excitation difference <= LP-bisection optimum + 2.5e-2, all models reproduce in-gamut targets.",
        "Witnesses are verified feasible, so a weak witness costs power, never soundness; excitation checked with the default solver only; two open known findings (C07-K1/K2) cover the SCS bisection's inaccurate iterates.",
        "DESIGN.md section 6 C07",
    ),
    "C08": (
        "Hypothesis property-based testing: membership in the tolerance set, exact HiGHS LPs for the linear secondary goals (two-sided bracket), SLSQP witnesses for the quadratic goals",
        "Generated under-determined systems x in-gamut targets x every option {None,'l2','min','max','var',number,vector} x l2_eps in [1e-6,1e-3] through both entry points; "
        "the returned intensities must lie in F and be no worse than an independently computed feasible optimum of the selected goal.",
        "Witness principle for quadratic goals (one-sided sound); rows whose LP margin is below 1e-6 are dropped (the property is about in-gamut targets).",
        "DESIGN.md section 6 C08",
    ),
    "C09": (
        "Hypothesis property-based testing: BVLS for the best achievable error, SLSQP witnesses (verified feasible) for the minimal summed variance, closed-form K^2 propagation for the reported variance",
        "Generated under-/exactly-determined systems x in/out-of-gamut targets x variance models (None, 'heteroscedastic', explicit, from 2-D filter std, from 3-D filter samples) x optional L1 request, "
        "high-accuracy and default settings; membership in the tolerance set, variance no larger than a feasible witness and than the ordinary fit, reported variance = model applied to X.",
        "Witness principle (one-sided sound); estimator-level variance models use one-hot sources so that captures equal filter values.",
        "DESIGN.md section 6 C09",
    ),
    "C10": (
        "Hypothesis property-based testing against an explicit HiGHS LP over (X, s0, s1): feasibility, the 'max' optimum, a first-order optimality certificate for 'unity'; per-sample identities checked directly",
        "Generated finite-bound systems x target sets of 1-50 samples from well inside to far outside x neutral point x objective x scale weights x deltas x solver, plus default-argument calls; "
        "an exception is accepted only when the LP is infeasible.",
        "Trusts HiGHS; the scales are asserted to the accuracy implied by the solver's objective tolerance (sqrt(tol)/w).",
        "DESIGN.md section 6 C10",
    ),
    "C13": (
        "Hypothesis property-based testing: facet inequalities of an independently computed hull + reproducibility LPs for membership, exact repetition for seeds, seeded statistical tests (exact volume fraction of random half-spaces vs sample counts, centroid z-test) for uniformity",
        "Generated clouds in 2-4 D (interior points, nearly collinear triples, stretch up to 1e3), all engines, n up to 1000 (20000 for uniformity), estimator systems with and without l1; "
        "every sample checked for membership; uniformity decided with |z|<=6.5 per test (false alarm ~1e-10).",
        "Distributional claims are decided statistically: gross non-uniformity (wrong weights, wrong Dirichlet) is detected, a 1 % bias is not.",
        "DESIGN.md section 6 C13",
    ),
    "C17": (
        "Hypothesis property-based testing: variational inequality + facet inequalities for the nearest point, facet equations + LP for the boundary multiple, plane equation + membership LP + support-function equality (LP) for the slice",
        "Generated clouds in 2-5 D (random, lattice-like with coplanar points, fewer points than dimensions for the slice), query points inside/outside/far/at vertices, plane constants between the extreme coordinate sums incl. exactly at a vertex.",
        "Trusts scipy ConvexHull equations as the description of the hull handed to the code and HiGHS optima (slice supports compared at 1e-6 of the cloud size).",
        "DESIGN.md section 6 C17",
    ),
    "C12": (
        "Hypothesis property-based testing: arithmetic identities (totals, one common factor, hue direction) in L1-normalised coordinates plus an LP for the largest admissible common factor and for membership in the chromatic gamut",
        "Generated adapted systems (neutral point inside the chromatic gamut; di-, tri-, tetrachromats; baseline; explicit/default neutral; relative/absolute) x target sets with inside/outside/neutral/all-zero rows; "
        "the contraction factor must equal the LP optimum (largest admissible), inside sets must come back bit-identical, zero rows stay zero; L1 scaling identities.",
        "Cases whose neutral point is not strictly inside a full-dimensional chromatic gamut are skipped (counted); HiGHS accuracy 1e-9.",
        "DESIGN.md section 6 C12",
    ),
    "C18": (
        "Hypothesis property-based testing against closed forms and an own determinant-sum volume, metamorphic relations under rigid motions / scalings / added points with a shared seed, seeded Monte-Carlo bounds for the mean width, own sum p log2(p/m) for the divergence",
        "Generated simplices / boxes / clouds of intrinsic dimension r embedded in d = 1..5 (flat when r < d), random orthogonal maps, scalings 1e-3..1e3, gamut metric relations (scale, itself, superset, at_l1), "
        "estimator fractional gamut in (0,1], JSD identities on vectors with zeros.",
        "Shapes whose affine rank is a matter of tolerance (sigma_r < 1e-2 sigma_1) are skipped; width values are asserted within 6.5 standard errors.",
        "DESIGN.md section 6 C18",
    ),
    "C14": (
        "model-based testing of call histories: exhaustive enumeration of all short registration sequences plus Hypothesis-generated histories, compared step by step with a stateless reference model, a fresh twin estimator and byte-level purity snapshots",
        "Every sequence of <=2 (quick; plus all length-3 sequences starting with a system) / <=3 (thorough) symbols out of 17 concrete registration calls, and random histories of 3-10 steps with drawn arguments; after the history a battery of up to 22 queries runs on the long-lived "
        "estimator and on a fresh twin built from the model's values: identical answers (or identical rejection), closed-form answers equal the model, no query mutates the estimator or the caller's arrays, rejected registrations change nothing.",
        "fit() updates the registered targets: their values are taken from the estimator and validated against BVLS for the state at fit time; fits compared at solver tolerance.",
        "DESIGN.md section 6 C14",
    ),
    "C15": (
        "metamorphic testing with Hypothesis-generated unit changes: the same call on the twin system (A*s*c, bounds/s, baseline*c, targets*c) must give the same membership, ranges*s, X*s, B_pred/c, error/c",
        "Generated systems/targets as in C03/C04/C06 (bounded, unbounded, flat), unit factors drawn inside the range that keeps both twins well-scaled (asserted) or in [1e-4,1e4] (stress, tallied only); "
        "membership compared outside the boundary band, ranges at 1e-7, uniquely determined fits at the C04 tolerances.",
        "Asserted only in the well-scaled regime as the property states; the twin relation needs no oracle beyond the LP used to exclude the boundary band.",
        "DESIGN.md section 6 C15",
    ),
    "C11": (
        "Hypothesis property-based testing: constraint predicates, exact recomputation of the returned capture, monotone-descent invariant over the hook's loss trace, BVLS / SLSQP-witness optimality of the factor fitted last, exact repetition per seed",
        "Generated systems x 1-3 layers x random masks x equal-L1 on/off x subsample None/'fast'/fraction x opacity bounds x weights x seeds x 5-60 in-gamut targets; every returned (X, P, B_pred) checked against all constraints, "
        "the loss trace against descent, the last-fitted factor against an independent bounded least-squares optimum.",
        "SCS accuracy (2e-3 of the range, 5e-3 (1+loss)); the descent clause is visible only through the DREYE_VERIF hook; targets are captures of in-bound intensities (B - baseline >= 0).",
        "DESIGN.md section 6 C11",
    ),
}

PENDING_REASON = "check not built yet in this revision (planned, see DESIGN.md section 6); not claimed until its check runs quietly on the unchanged tree"

ALL = [f"C{i:02d}" for i in range(1, 21)]


def hook_commits():
    try:
        out = subprocess.run(["git", "-C", "/repo", "log", "--format=%h %s"], capture_output=True, text=True).stdout
        return [l.split()[0] for l in out.splitlines() if " verif-hook:" in " " + l]
    except Exception:
        return []


def main():
    checks = []
    for pid in ALL:
        if pid not in CLAIMED:
            continue
        tech, text, note, ref = CLAIMED[pid]
        checks.append(dict(
            property_id=pid,
            quick_cmd=f"./check {pid} --tier quick",
            thorough_cmd=f"./check {pid} --tier thorough",
            evidence_file=f"/verif/evidence/{pid}.json",
            replay_cmd_template=f"./check {pid} --replay {{path}}",
            engine="hypothesis-runner",
            level_claimed=dict(category="exploration", text=text, design_ref=ref),
            level_note=note,
            technique=tech,
        ))
    man = dict(
        version=1,
        setup_cmd="./setup.sh",
        hooks=dict(
            guard="DREYE_VERIF",
            enable="environment variable DREYE_VERIF=1 (set by ./check); dreye is an editable install, checks import /repo's working tree directly",
            baseline_off_cmd="/venv/bin/python /verif/tools/baseline.py",
            source_commits=hook_commits(),
            add_only=True,
        ),
        engines=[dict(
            name="hypothesis-runner",
            path="/verif/vlib/runner.py",
            serves_properties=sorted(CLAIMED),
            kind_free_text="Hypothesis 6.168 property-based testing (seeded by VERIF_SEED, sharded over processes), stateful machines and "
                           "exhaustive small-scope enumeration, with independent oracles (fsum trapezoid, HiGHS LPs, BVLS, SLSQP witnesses); "
                           "failures are shrunk to JSON replay files that are re-run without the library",
        )],
        checks=checks,
        notes="Exit codes of every command: 0 held, 1 violation (VIOLATION line), 2 harness error. known_findings.json lists genuine defects "
              "(open ones are suppressed by exact sub-check/label/predicate match only; fixed ones suppress nothing).",
        not_applicable=[dict(property_id=p, reason=PENDING_REASON) for p in ALL if p not in CLAIMED],
    )
    with open(os.path.join(VERIF, "MANIFEST.json"), "w") as fh:
        json.dump(man, fh, indent=1)
    try:
        import jsonschema
        jsonschema.validate(man, json.load(open("/root/.vp/MANIFEST.schema.json")))
        print("MANIFEST.json valid;", len(checks), "checks")
    except ImportError:
        print("MANIFEST.json written (jsonschema not available to validate)")


if __name__ == "__main__":
    main()
