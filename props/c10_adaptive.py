"""C10 — adaptive fit scales intensity and chroma uniformly and stays inside the gamut."""
from __future__ import annotations

import numpy as np
from hypothesis import strategies as st

from vlib import gens
from vlib.core import unchanged, Prop, Sub, Violation, calling, check
from vlib.oracles import _linprog, lp_dist
from vlib.systems import Sys, matrix_system, target_rows


@st.composite
def adaptive_case(draw, default_args=False):
    sysd = draw(matrix_system(m=(2, 4), n=(2, 6), ub_kinds=("finite",), lb_kinds=("zero", "zero", "pos", "mixed-sign"),
                              K_kinds=("none", "scalar", "vector"), base_kinds=("none", "none", "scalar", "vector")))
    nrows = draw(st.one_of(st.integers(1, 8), st.sampled_from([1, 2, 20, 50])))
    regime = draw(st.sampled_from(["inside", "mixed", "mixed", "outside"]))
    kinds = {"inside": ["interior"], "mixed": ["interior", "interior", "outside", "scaled_out", "random"], "outside": ["outside", "scaled_out", "random"]}[regime]
    rows = draw(target_rows(sysd, kinds, nrows=(nrows, nrows), margin=(0.05, 0.45)))
    m = len(sysd["A"])
    neutral = draw(st.one_of(st.none(), gens.array((m,), 0.2, 3.0, styles=("raw", "int"))))
    if neutral is not None:
        neutral = np.maximum(np.asarray(neutral), 0.2).tolist()
    obj = draw(st.sampled_from(["unity", "unity", "max", "max"]))
    scale_w = draw(st.one_of(st.just(1.0), st.floats(0.2, 5.0), gens.array((2,), 0.2, 5.0, styles=("raw",)), st.sampled_from([[1.0, 4.0], [4.0, 1.0], [1.0, 2.0], [2.0, 1.0], [1.0, 3.0], [3.0, 1.0]])))
    if isinstance(scale_w, list):
        scale_w = np.maximum(np.asarray(scale_w), 0.2).tolist()
    return dict(system=sysd, rows=rows, neutral=neutral, objective=obj, scale_w=scale_w,
                delta_norm1=draw(gens.log_uniform(1e-6, 1e-3)), delta_radius=draw(gens.log_uniform(1e-6, 1e-3)),
                solver=(None if default_args else draw(st.sampled_from(["CLARABEL", "CLARABEL", "SCS", None]))),
                entry=draw(st.sampled_from(["function", "estimator"])), regime=regime)


def adaptive_lp(sv, B, neutral, d1, dr, c_s):
    """min c_s . (s0, s1) over {X in box, scales >= 0, |sum_j Bpred - s0 Bsum| <= d1, |Bpred - s0 np - s1 Brad| <= dr}.
    variables: [X (size*n, row-major), s0, s1]. returns linprog result."""
    size, m = B.shape
    n = sv.n
    Bsum = B.sum(axis=1)
    npt = neutral / neutral.sum() * Bsum[:, None]
    Brad = B - npt
    nv = size * n + 2
    rows_A, rows_b = [], []
    ones = np.ones(m)
    for i in range(size):
        sl = slice(i * n, (i + 1) * n)
        # intensity: sum_j (A' x_i + base')_j - s0 Bsum_i in [-d1, d1]
        a = np.zeros(nv)
        a[sl] = ones @ sv.Ap
        a[-2] = -Bsum[i]
        rows_A += [a, -a]
        rows_b += [d1 - sv.basep.sum(), d1 + sv.basep.sum()]
        for j in range(m):
            a = np.zeros(nv)
            a[sl] = sv.Ap[j]
            a[-2] = -npt[i, j]
            a[-1] = -Brad[i, j]
            rows_A += [a, -a]
            rows_b += [dr - sv.basep[j], dr + sv.basep[j]]
    bnds = [(float(sv.lb[k % n]), float(sv.ub[k % n])) for k in range(size * n)] + [(0.0, None), (0.0, None)]
    c = np.zeros(nv)
    c[-2:] = c_s
    return _linprog(c, A_ub=np.array(rows_A), b_ub=np.array(rows_b), bounds=bnds)


def body_adaptive(case):
    sv = Sys(case["system"])
    B = np.array([r["b"] for r in case["rows"]], dtype=float)
    size, m = B.shape
    neutral = np.ones(m) if case["neutral"] is None else np.asarray(case["neutral"], dtype=float)
    d1, dr = case["delta_norm1"], case["delta_radius"]
    obj = case["objective"]
    sw = np.broadcast_to(np.asarray(case["scale_w"], dtype=float), (2,)).astype(float)
    kw = dict(neutral_point=(None if case["neutral"] is None else neutral), delta_norm1=d1, delta_radius=dr,
              adaptive_objective=obj, scale_w=case["scale_w"] if not isinstance(case["scale_w"], list) else np.asarray(case["scale_w"]))
    if case["solver"] is not None:
        kw["solver"] = case["solver"]
    labs = sv.labels() + [f"obj:{obj}", f"solver:{case['solver']}", f"regime:{case['regime']}", f"n{min(size, 9) if size < 9 else '>=9'}"]
    # oracle feasibility
    Bsum = B.sum(axis=1)
    npt = neutral / neutral.sum() * Bsum[:, None]
    Brad = B - npt
    offaxis = float(np.max(np.abs(Brad))) > 1e-6 * max(1.0, float(np.max(np.abs(B))))
    feas = adaptive_lp(sv, B, neutral, d1, dr, np.zeros(2))
    feasible = feas.status == 0
    if obj == "max" and not offaxis:
        return labs + ["skipped-unbounded-max"]
    try:
        with calling("fit_adaptive", allow=(RuntimeError,)):
            if case["entry"] == "estimator":
                est = sv.make_estimator()
                with unchanged("adaptive", estimator=est):
                    X, scales, Bp = est.fit_adaptive(B, **kw)
            else:
                from dreye.api.optimize.lsq_linear import lsq_linear_adaptive

                X, scales, Bp = lsq_linear_adaptive(sv.A, B, return_pred=True, **sv.kwargs(), **kw)
    except RuntimeError as e:
        if not feasible:
            return labs + ["infeasible-rejected", "nt:infeasible"]
        # feasible with margin? (a feasible set that only exists up to LP tolerance may be rejected)
        feas2 = adaptive_lp(sv, B, neutral, d1 * 0.5, dr * 0.5, np.zeros(2))
        if feas2.status != 0:
            return labs + ["marginal-rejected"]
        # every feasible pair needs an intensity scale above 1e4 (a target 1e-7 next to a baseline of 1): not the well-scaled regime
        r_min = adaptive_lp(sv, B, neutral, d1 * 0.5, dr * 0.5, np.array([1.0, 0.0]))
        if r_min.status == 0 and float(r_min.x[-2]) > 1e4:
            return labs + ["extreme-scale-rejected"]
        raise Violation("adaptive:feasible-rejected", f"a feasible scale pair exists (e.g. {feas.x[-2:].tolist()}) but the call raised: {e}")
    X, scales, Bp = np.asarray(X), np.asarray(scales), np.asarray(Bp)
    check(X.shape == (size, sv.n) and scales.shape == (2,) and Bp.shape == B.shape, "adaptive:shape", f"{X.shape} {scales.shape} {Bp.shape}")
    if case["entry"] != "estimator" and size % 2 == 0:
        # whole-number targets (counts): the int64 array gets the answer of the same numbers as floats (also "no feasible scales")
        from dreye.api.optimize.lsq_linear import lsq_linear_adaptive as _adaptive

        whole = np.round(B)
        res = []
        for arg in (whole.astype(np.int64), whole.copy()):
            try:
                with calling("fit_adaptive of whole-number targets (int64 / float64)", allow=(RuntimeError,)):
                    res.append(np.asarray(_adaptive(sv.A, arg, return_pred=True, **sv.kwargs(), **kw)[1], dtype=float))
            except RuntimeError:
                res.append(None)
        check((res[0] is None) == (res[1] is None) and (res[0] is None or np.all(np.abs(res[0] - res[1]) <= 1e-6 * (1.0 + np.abs(res[1])))), "adaptive:integer-targets-differ",
              f"targets {whole[:3].tolist()}.. as an int64 array give scales {None if res[0] is None else res[0].tolist()}, as floats {None if res[1] is None else res[1].tolist()}")
        labs.append("whole-number-twin")
    check(not feasible or True, "adaptive:never", "")
    if not feasible:
        # a feasible set that exists only up to the LP's tolerance (razor-thin: scales close to 0) is a band case
        # ... and so is one that exists within the accuracy of the requested solver relative to the size of the captures involved
        # (SCS: 1e-4 of the data; CLARABEL: 1e-7): a constraint missed by 3e-4 at captures of 50 is "optimal" for SCS
        slack = (1e-4 if case["solver"] == "SCS" else 1e-7) * float(max(np.max(np.abs(Bp)), np.max(np.abs(B)), sv.extent))
        if adaptive_lp(sv, B, neutral, d1 * 2.0 + slack, dr * 2.0 + slack, np.zeros(2)).status == 0:
            return labs + ["marginal-returned"]
        raise Violation("adaptive:infeasible-returned", f"no feasible (X, scales) exists (LP, even with doubled deltas) but the call returned scales {scales.tolist()}")
    acc = 1e-5 if case["solver"] == "CLARABEL" else 2e-3
    rng = sv.ub - sv.lb
    check(np.all(X >= sv.lb - acc * rng.max()) and np.all(X <= sv.ub + acc * rng.max()), "adaptive:bounds", f"intensities outside the bounds: {X.tolist()[:3]}")
    # "positive" up to solver accuracy: when the feasible region only touches s = 0 the solver returns 0.0 itself
    check(np.all(scales >= -acc), "adaptive:scales-positive", f"scales {scales.tolist()}")
    if np.any(scales <= acc):
        labs.append("degenerate-zero-scale")
    model = sv.predict(X)
    mag = np.abs(X) @ np.abs(sv.Ap).T + np.abs(sv.basep)
    check(np.all(np.abs(Bp - model) <= 1e-9 * mag + 1e-300), "adaptive:prediction", "B_pred is not the model's capture of X")
    s0, s1 = float(scales[0]), float(scales[1])
    scale_cap = max(1.0, float(np.max(np.abs(B))))
    tol1 = d1 * 1.05 + acc * scale_cap * m
    tolr = dr * 1.05 + acc * scale_cap
    e1 = np.abs(model.sum(axis=1) - s0 * Bsum)
    check(np.all(e1 <= tol1), "adaptive:intensity-identity", f"sum(B_pred) - s0*sum(b) = {e1.max():.3g} > delta {d1:.3g} (s0={s0:.6g})",
          observed=dict(scales=scales.tolist()))
    er = np.abs((model - s0 * npt) - s1 * Brad)
    check(np.all(er <= tolr), "adaptive:radius-identity", f"(B_pred - s0*neutral_i) - s1*(b - neutral_i) = {er.max():.3g} > delta {dr:.3g} (scales {scales.tolist()})",
          observed=dict(scales=scales.tolist()))
    all_in = all(lp_dist(sv.Ap, sv.basep, sv.lb, sv.ub, b)[0] <= 1e-9 * sv.extent for b in B)
    # accuracy of the scales: the objective (w (s-1))^2 is flat near its optimum, so an objective tolerance of ~1e-8 (CLARABEL)
    # / ~1e-4 (SCS) leaves the scales undetermined to ~sqrt(tol)/w
    stol = (5e-4 if case["solver"] == "CLARABEL" else 2e-2) / min(1.0, float(np.min(sw)))
    if obj == "unity":
        if all_in:
            labs.append("all-in-gamut")
            check(abs(s0 - 1) <= stol and abs(s1 - 1) <= stol, "adaptive:unity-not-one", f"all targets are in gamut but scales = {scales.tolist()}")
        else:
            # first-order certificate: s* minimises the convex f over the convex feasible region iff grad f(s*) . (s - s*) >= 0 there
            g = 2 * (sw ** 2) * (scales - 1.0)
            r = adaptive_lp(sv, B, neutral, d1, dr, g)
            if r.status == 0:
                gap = float(g @ scales - r.fun)
                fval = float(np.sum((sw * (scales - 1)) ** 2))
                check(gap <= stol * (1 + np.abs(g).sum()) * 5 + 10 * stol * np.sqrt(max(fval, 0.0)), "adaptive:unity-not-closest",
                      f"scales {scales.tolist()} are not the feasible pair closest to (1,1): first-order gap {gap:.4g} (LP point {r.x[-2:].tolist()})",
                      observed=dict(scales=scales.tolist(), better=r.x[-2:].tolist()))
            labs.append("nt:scales-differ-from-one")
    else:
        r = adaptive_lp(sv, B, neutral, d1, dr, -sw)
        if r.status == 0:
            best = float(-r.fun)
            got = float(sw @ scales)
            check(got >= best - stol * (1 + abs(best)) * 5, "adaptive:max-not-maximal", f"weighted sum of scales {got:.6g} but {best:.6g} is feasible ({r.x[-2:].tolist()})",
                  observed=dict(scales=scales.tolist(), better=r.x[-2:].tolist()))
            check(got <= best + stol * (1 + abs(best)) * 5 + 1e-6, "adaptive:max-better-than-possible", f"weighted sum {got:.6g} exceeds the LP optimum {best:.6g}")
        labs.append("nt:max-objective")
    if size >= 2 and not all_in:
        labs.append("nt:several-targets")
    return labs


def body_default(case):
    """default arguments only (no solver passed): the documented call must work."""
    sv = Sys(case["system"])
    B = np.array([r["b"] for r in case["rows"]], dtype=float)
    if adaptive_lp(sv, B, np.ones(B.shape[1]), 1e-4 * 0.5, 1e-4 * 0.5, np.zeros(2)).status != 0:
        return ["infeasible-skipped"]
    with calling("fit_adaptive (default arguments)"):
        est = sv.make_estimator()
        X, scales, Bp = est.fit_adaptive(B)
    check(np.all(np.asarray(scales) >= 0) and np.asarray(X).shape == (B.shape[0], sv.n), "default:result", f"scales {scales}")
    return sv.labels() + ["nt:default-arguments"]


RULE = (
    "Hypothesis-generated well-scaled systems with finite bounds (2-4 receptors x 2-6 sources, K none/scalar/vector, baseline), target sets of "
    "1-50 samples from well inside to far outside the gamut, neutral point default or a positive vector, objectives 'unity'/'max', scale weights "
    "scalar or pair, deltas in [1e-6,1e-3], solver passed explicitly (CLARABEL/SCS) plus one sub-check with default arguments only. Oracle: the "
    "constraint set is linear in (X, s0, s1), so the HiGHS LP gives feasibility, the 'max' optimum, and a first-order optimality certificate "
    "for 'unity' (min grad.s over the feasible set); per-sample identities are checked directly on the returned values. Non-trivial = some "
    "target outside the gamut (scales != 1), the 'max' objective, or an infeasible set."
    " Function entry, even sample counts: rounded targets as int64 and as floats give the same scales (or both no feasible scales)."
)

PROP = Prop(
    pid="C10",
    title="Adaptive fit scales intensity and chroma uniformly and stays inside the gamut",
    rule=RULE,
    assumptions=["HiGHS LP over (X, s0, s1) is the reference for feasibility and optimal scales", "a RuntimeError is accepted only when the LP is infeasible (or feasible only without margin)"],
    subs=[
        Sub("adaptive", adaptive_case(), body_adaptive, quick=2400, thorough=20000, quick_shards=8, min_nt_share=0.3),
        Sub("default_arguments", adaptive_case(default_args=True), body_default, quick=80, thorough=1000, quick_shards=2, thorough_shards=4, min_nt_share=0.3),
    ],
)
