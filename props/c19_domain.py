"""C19 — domain equalisation interpolates onto the exact overlap at the coarsest resolution."""
from __future__ import annotations

import itertools

import numpy as np
from hypothesis import strategies as st

from vlib import gens
from vlib.core import Prop, Sub, Violation, calling, check
from vlib.oracles import interp_linear, trapz_fsum


def _dreye():
    import dreye
    return dreye


# ------------------------------------------------------------------------------------------------
# generators


@st.composite
def domain_set(draw, count=None, relation=None):
    """2-4 domains: uniform/non-uniform, ascending/unsorted, nested / partially overlapping / touching / disjoint / identical."""
    k = draw(st.integers(2, 4)) if count is None else count
    if relation in (None, "overlap") and draw(st.integers(0, 5)) == 0:
        # integer-typed wavelength grids (np.arange(300, 700, 7)): partially overlapping ranges whose overlap is not a multiple of
        # the coarsest step, so the common domain has non-integer points
        doms = []
        for _ in range(k):
            a, stp = draw(st.integers(280, 340)), draw(st.integers(1, 30))
            n = draw(st.integers(3, 14))
            doms.append([float(a + stp * i) for i in range(n)])
        lo_, hi_ = max(d[0] for d in doms), min(d[-1] for d in doms)
        if hi_ - lo_ <= 0:
            doms = [[float(v - doms[i][0] + doms[0][0] + 3 * i) for v in doms[i]] for i in range(k)]
        return dict(domains=doms, relation="overlap", int_dtype=True)
    n0 = draw(st.integers(2, 12))
    d0 = draw(gens.ascending_domain(n0, lo_gap=1e-2, hi_gap=1e2))
    lo0, hi0 = d0[0], d0[-1]
    rel = draw(st.sampled_from(["overlap", "overlap", "overlap", "nested", "identical", "touching", "disjoint", "short", "shifted"])) if relation is None else relation
    doms = [d0]
    for _ in range(k - 1):
        n = draw(st.integers(2, 12))
        if rel == "identical":
            doms.append(list(d0))
            continue
        d = draw(gens.ascending_domain(n, lo_gap=1e-2, hi_gap=1e2, start=0.0))
        span = d[-1] - d[0]
        if rel == "nested":
            # d0 strictly inside the new domain: stretch/shift
            scale = (hi0 - lo0) * draw(st.floats(1.1, 3.0)) / span
            shift = lo0 - draw(st.floats(0.05, 0.45)) * scale * span
            d = [shift + scale * v for v in d]
            if not (d[0] < lo0 and d[-1] > hi0):
                d = [lo0 - 1.0] + [v for v in d if lo0 < v < hi0] + [hi0 + 1.0]
        elif rel == "shifted":
            # the same grid moved by a fraction of its finest step: same length, nearly the same values
            d = [v + draw(st.floats(0.05, 0.95)) * float(np.min(np.diff(d0))) for v in d0]
        elif rel == "overlap":
            frac = draw(st.floats(-0.7, 0.7))
            shift = lo0 + frac * (hi0 - lo0)
            d = [shift + v for v in d]
        elif rel == "short":
            # overlap shorter than the coarsest step
            eps = draw(gens.log_uniform(1e-3, 0.5))
            gap = max(np.mean(np.diff(d0)), np.mean(np.diff(d)))
            d = [hi0 - eps * gap + v for v in d]
        elif rel == "touching":
            d = [hi0 + v for v in d]
        elif rel == "disjoint":
            d = [hi0 + draw(gens.log_uniform(1e-2, 1e2)) + v for v in d]
        doms.append([float(v) for v in d])
    perms = []
    for d in doms:
        if draw(st.integers(0, 3)) == 0 and rel != "identical":
            p = draw(st.permutations(list(range(len(d)))))
            perms.append(list(p))
        else:
            perms.append(None)
    doms = [[d[i] for i in p] if p else d for d, p in zip(doms, perms)]
    if rel == "identical" and draw(st.booleans()):
        p = draw(st.permutations(list(range(len(d0)))))
        doms = [[d[i] for i in p] for d in doms]
    return dict(domains=doms, relation=rel)


@st.composite
def equalize_case(draw, stackable=False):
    ds = draw(domain_set(relation=(draw(st.sampled_from(["overlap", "overlap", "nested", "identical"])) if stackable else None)))
    doms = ds["domains"]
    k = len(doms)
    arrs, axes = [], []
    if stackable:
        ndim = draw(st.integers(1, 3))
        ax = draw(st.integers(-ndim, ndim - 1))
        other = [draw(st.one_of(st.integers(1, 3), st.sampled_from([len(x) for x in doms]))) for _ in range(ndim)]
    for d in doms:
        if not stackable:
            ndim = draw(st.integers(1, 3))
            ax = draw(st.integers(-ndim, ndim - 1))
            # square-ish shapes (another axis as long as the domain) are where axis confusion hides
            other = [draw(st.one_of(st.integers(1, 3), st.just(len(d)))) for _ in range(ndim)]
        shape = list(other)
        shape[ax] = len(d)
        arrs.append(draw(gens.array(tuple(shape))))
        axes.append(ax)
    mode = draw(st.sampled_from(["list", "list", "none", "int"]))
    if stackable:
        mode = draw(st.sampled_from(["list", "int"]))
    if mode == "none":
        # axes=None means the last axis: regenerate arrays with the domain last
        arrs2 = []
        for d, a, ax in zip(doms, arrs, axes):
            arrs2.append(np.moveaxis(np.asarray(a), ax, -1).tolist())
        arrs, axes_arg, axes = arrs2, None, [-1] * k
    elif mode == "int":
        ndmin = min(np.asarray(a).ndim for a in arrs)
        ax0 = draw(st.integers(-ndmin, ndmin - 1))          # includes 0 and positive scalars (a falsy 0 is a legitimate axis)
        arrs2 = []
        for d, a, ax in zip(doms, arrs, axes):
            arrs2.append(np.moveaxis(np.asarray(a), ax, ax0).tolist())
        arrs, axes_arg, axes = arrs2, ax0, [ax0] * k
    else:
        axes_arg = list(axes)
    out = dict(domains=doms, arrs=arrs, axes=axes_arg, relation=ds["relation"], int_dtype=ds.get("int_dtype", False))
    if stackable:
        nd = np.asarray(arrs[0]).ndim
        out["stack_axis"] = draw(st.integers(-nd, nd - 1))
        out["concatenate"] = draw(st.booleans())
    return out


# ------------------------------------------------------------------------------------------------
# oracle


def overlap_rule(doms):
    lo = max(min(d) for d in doms)
    hi = min(max(d) for d in doms)
    step0 = max(float(np.mean(np.diff(np.sort(np.asarray(d, dtype=float))))) for d in doms)
    return lo, hi, step0


def interp_along(arr, dom, new_dom, axis):
    """own piece-wise linear interpolation of arr (domain on `axis`, possibly unsorted) at new_dom."""
    arr = np.asarray(arr, dtype=float)
    order = np.argsort(np.asarray(dom, dtype=float), kind="stable")
    xs = [float(dom[i]) for i in order]
    moved = np.moveaxis(arr, axis, -1)[..., order]
    out = np.zeros(moved.shape[:-1] + (len(new_dom),))
    mag = np.zeros_like(out)
    for idx in itertools.product(*[range(s) for s in moved.shape[:-1]]):
        y = [float(v) for v in moved[idx]]
        out[idx] = interp_linear(new_dom, xs, y)
        mag[idx] = interp_linear(new_dom, xs, y, local_mag=True)
    return np.moveaxis(out, -1, axis), np.moveaxis(mag, -1, axis)


def _labels(case, lo=None, hi=None, step0=None):
    doms = case["domains"]
    labs = [f"rel:{case.get('relation')}", f"k{len(doms)}"]
    nonuni = any(not gens.is_uniform(sorted(d)) for d in doms)
    unsorted_ = any(list(d) != sorted(d) for d in doms)
    if unsorted_:
        labs.append("unsorted")
    if nonuni:
        labs.append("nonuniform")
    return labs, nonuni, unsorted_


def _check_equalized(case, new_dom, new_arrs, labs_extra=()):
    doms = case["domains"]
    k = len(doms)
    axes = case["axes"]
    axes_l = [-1] * k if axes is None else ([axes] * k if isinstance(axes, int) else list(axes))
    lo, hi, step0 = overlap_rule(doms)
    labs, nonuni, unsorted_ = _labels(case)
    new_dom = np.asarray(new_dom, dtype=float)
    check(new_dom.ndim == 1 and new_dom.size >= 2, "domain:shape", f"new domain shape {new_dom.shape}")
    check(new_dom[0] == lo and new_dom[-1] == hi, "domain:overlap", f"new domain [{new_dom[0]!r}, {new_dom[-1]!r}] but overlap is [{lo!r}, {hi!r}]")
    steps = np.diff(new_dom)
    step = (hi - lo) / (new_dom.size - 1)
    check(np.all(np.abs(steps - step) <= 1e-9 * step + 1e-12 * max(abs(lo), abs(hi))), "domain:uniform", f"steps {steps.tolist()} not uniform")
    ratio = (hi - lo) / step0
    kk = new_dom.size - 1
    check(abs(kk - ratio) <= 0.5 + 1e-9, "domain:step", f"{kk} intervals but overlap/coarsest-step = {ratio!r} (step0={step0!r})")
    check(len(new_arrs) == k, "arrays:count", f"{len(new_arrs)} arrays")
    for a_in, dom, ax, a_out in zip(case["arrs"], doms, axes_l, new_arrs):
        a_out = np.asarray(a_out, dtype=float)
        exp, mag = interp_along(a_in, dom, new_dom.tolist(), ax)
        check(a_out.shape == exp.shape, "arrays:shape", f"shape {a_out.shape} != {exp.shape}")
        err = np.abs(a_out - exp)
        check(np.all(err <= 1e-9 * mag + 1e-300), "arrays:interpolation",
              f"max err {err.max()!r} (axis {ax}); domain {dom} -> {new_dom.tolist()}",
              observed=dict(got=np.ravel(a_out)[:4].tolist(), expected=np.ravel(exp)[:4].tolist()))
    if abs(ratio - round(ratio)) > 1e-6:
        labs.append("nt:step-does-not-divide")
    if nonuni or unsorted_:
        labs.append("nt:nonuniform-or-unsorted")
    if k >= 3:
        labs.append("nt:three-or-more")
    return labs + list(labs_extra)


def _doms(case):
    """the domains as arrays: float64, or int64 for integer-typed grids"""
    return [np.asarray(d, dtype=float).astype(np.int64 if case.get("int_dtype") else float) for d in case["domains"]]


def body_equalize(case):
    dreye = _dreye()
    doms = _doms(case)
    arrs = [np.asarray(a, dtype=float) for a in case["arrs"]]
    doms0 = [d.copy() for d in doms]
    arrs0 = [a.copy() for a in arrs]
    rel = case["relation"]
    lo, hi, step0 = overlap_rule(case["domains"])
    identical = all(np.array_equal(doms[0], d) for d in doms)
    try:
        with calling("equalize_domains", allow=(ValueError,)):
            new_dom, new_arrs = dreye.equalize_domains(doms, arrs, axes=case["axes"])
    except ValueError as e:
        # rejection is required for disjoint domains, allowed when the overlap is shorter than one coarsest step
        if identical:
            raise Violation("identical:rejected", f"identical domains rejected: {e}")
        if hi - lo < step0 * (1 + 1e-9):
            return _labels(case)[0] + ["rejected", "nt:rejected-no-room"]
        raise Violation("overlap:rejected", f"overlap [{lo}, {hi}] >= coarsest step {step0} but rejected: {e}")
    check(all(np.array_equal(a, b) for a, b in zip(doms, doms0)) and all(np.array_equal(a, b) for a, b in zip(arrs, arrs0)),
          "inputs-modified", "equalize_domains modified its inputs")
    if identical:
        check(np.array_equal(np.asarray(new_dom), doms[0]), "identical:domain-changed", "shared domain not returned unchanged")
        check(len(new_arrs) == len(arrs) and all(np.array_equal(np.asarray(a), b) for a, b in zip(new_arrs, arrs)),
              "identical:arrays-changed", "arrays sharing a domain were not returned unchanged")
        labs = _labels(case)[0] + ["identical"]
        if not gens.is_uniform(sorted(case["domains"][0])) or list(case["domains"][0]) != sorted(case["domains"][0]):
            labs.append("nt:identical-nonuniform")
        return labs
    check(hi > lo, "disjoint:accepted", f"domains do not overlap (max of minima {lo} >= min of maxima {hi}) but a result was returned")
    # whole-number spectra (counts) as int64 arrays are interpolated like the same numbers as floats (no truncation of in-between values)
    whole = [np.round(a * 7.0) for a in arrs]
    with calling("equalize_domains (whole-number arrays as int64 / float64)"):
        _, ai = dreye.equalize_domains(doms, [w.astype(np.int64) for w in whole], axes=case["axes"])
        _, af = dreye.equalize_domains(doms, [w.copy() for w in whole], axes=case["axes"])
    check(len(ai) == len(af) and all(np.asarray(x).shape == np.asarray(y).shape and np.all(np.abs(np.asarray(x, dtype=float) - np.asarray(y, dtype=float)) <= 1e-12 * (1.0 + np.abs(np.asarray(y, dtype=float)))) for x, y in zip(ai, af)),
          "integer-arrays-differ", "whole-number arrays handed over as int64 are interpolated differently from the same numbers as floats")
    if hi - lo < step0 * (1 - 1e-9):
        # the statement fixes only the disjoint case; a returned result must still be correct
        pass
    return _check_equalized(case, new_dom, new_arrs)


def body_stack(case):
    dreye = _dreye()
    doms = _doms(case)
    arrs = [np.asarray(a, dtype=float) for a in case["arrs"]]
    lo, hi, step0 = overlap_rule(case["domains"])
    try:
        with calling("equalize_domains", allow=(ValueError,)):
            d1, a1 = dreye.equalize_domains(doms, arrs, axes=case["axes"])
    except ValueError:
        return _labels(case)[0] + ["rejected"]
    identical = all(np.array_equal(doms[0], d) for d in doms)
    shapes = {np.asarray(a).shape for a in a1}
    sa = case["stack_axis"]
    nd = np.asarray(a1[0]).ndim
    try:
        exp = np.concatenate([np.asarray(a) for a in a1], axis=sa) if case["concatenate"] else np.stack([np.asarray(a) for a in a1], axis=sa)
    except ValueError:
        return _labels(case)[0] + ["unstackable"]
    with calling("equalize_domains(stack_axis)"):
        d2, a2 = dreye.equalize_domains(doms, arrs, axes=case["axes"], stack_axis=sa, concatenate=case["concatenate"])
    a2 = np.asarray(a2)
    check(np.array_equal(np.asarray(d1), np.asarray(d2)), "stack:domain", "domain differs with stack_axis")
    check(a2.shape == exp.shape, "stack:shape", f"{a2.shape} != {exp.shape}")
    check(np.array_equal(a2, exp), "stack:values", "stacked/concatenated values differ from the individually equalised arrays")
    labs = _labels(case)[0] + ["concatenate" if case["concatenate"] else "stack"]
    if not identical:
        labs.append("nt:stacked-after-interpolation")
    return labs


@st.composite
def capture_case(draw):
    ds = draw(domain_set(count=2, relation=draw(st.sampled_from(["overlap", "overlap", "nested", "identical", "shifted", "shifted"]))))
    fd, sd = ds["domains"]
    if not ds.get("int_dtype"):
        # unit of the domain axis: nm-like numbers, or the same axis in metres / micrometres / other units
        u = draw(st.sampled_from([1.0, 1.0, 1e-9, 1e-6, 1e3]))
        fd, sd = [float(v) * u for v in fd], [float(v) * u for v in sd]
    fd = sorted(fd)  # the estimator's own domain is documented as ascending
    nf = draw(st.integers(1, 4))
    ns = draw(st.integers(1, 4))
    F = draw(gens.array((nf, len(fd)), 0.0, 10.0))
    S = draw(gens.array((ns, len(sd)), 0.0, 10.0))
    return dict(domains=[fd, sd], filters=F, signals=S, relation=ds["relation"], int_dtype=ds.get("int_dtype", False))


def body_capture(case):
    dreye = _dreye()
    fd, sd = case["domains"]
    F = np.asarray(case["filters"], dtype=float)
    S = np.asarray(case["signals"], dtype=float)
    lo, hi, step0 = overlap_rule([fd, sd])
    identical = np.array_equal(np.asarray(fd), np.asarray(sd))
    try:
        with calling("ReceptorEstimator.capture(domain=)", allow=(ValueError,)):
            fd_a, sd_a = _doms(case)
            est = dreye.ReceptorEstimator(F, domain=fd_a)
            got = np.asarray(est.capture(S, domain=sd_a))
    except ValueError:
        if not identical and hi - lo < step0 * (1 + 1e-9):
            return ["rejected"]
        raise Violation("capture:rejected", f"overlap [{lo},{hi}] with coarsest step {step0} rejected")
    if identical:
        grid = [float(v) for v in fd]
        order = np.argsort(grid)
        Fi, Si = F, S
        x = grid
    else:
        kk = int(round((hi - lo) / step0))
        kk = max(kk, 1)
        # accept either rounding when the ratio is a half-integer
        x = [lo + i * (hi - lo) / kk for i in range(kk)] + [hi]
        Fi, Fm = interp_along(F, fd, x, -1)
        Si, Sm = interp_along(S, sd, x, -1)
    if identical:
        Fm, Sm = np.abs(F), np.abs(S)
    exp = np.zeros((S.shape[0], F.shape[0]))
    sc = np.zeros_like(exp)
    for i in range(S.shape[0]):
        for j in range(F.shape[0]):
            exp[i, j], _ = trapz_fsum([float(a * b) for a, b in zip(Si[i], Fi[j])], x=x)
            _, sc[i, j] = trapz_fsum([float(a * b) for a, b in zip(Sm[i], Fm[j])], x=x)
    check(got.shape == exp.shape, "capture:shape", f"{got.shape} != {exp.shape}")
    ratio = (hi - lo) / step0
    if not identical and abs(ratio - np.floor(ratio) - 0.5) < 1e-6:
        return ["half-integer-ratio-skipped"]
    check(np.all(np.abs(got - exp) <= 1e-8 * sc + 1e-300), "capture:value",
          f"capture on own domain {got.tolist()} != capture of interpolated signal and filters {exp.tolist()}")
    # the same spectra registered as sources on their own domain: the system matrix is the same capture
    with calling("ReceptorEstimator.register_system(domain=)"):
        est.register_system(np.abs(S), domain=sd_a)
        A_got = np.asarray(est.A, dtype=float)
    if np.all(S >= 0):
        check(A_got.shape == exp.T.shape and np.all(np.abs(A_got - exp.T) <= 1e-8 * sc.T + 1e-300), "capture:system-matrix",
              f"system matrix of sources registered on their own domain {A_got.tolist()} != capture {exp.T.tolist()}")
    labs = [f"rel:{case['relation']}"]
    if not identical:
        labs.append("nt:interpolated-capture")
    return labs


@st.composite
def scalar_case(draw):
    nd = draw(st.integers(2, 12))
    F = draw(gens.array((draw(st.integers(1, 3)), nd), 0.0, 10.0))
    S = draw(gens.array((draw(st.integers(1, 3)), nd), 0.0, 10.0))
    dx = draw(st.sampled_from([1.0, 0.5, 2.0, 0.1, 7.0]))
    return dict(filters=F, signals=S, dx=dx)


def body_scalar(case):
    dreye = _dreye()
    F = np.asarray(case["filters"], dtype=float)
    S = np.asarray(case["signals"], dtype=float)
    with calling("ReceptorEstimator.capture(domain=scalar)"):
        est = dreye.ReceptorEstimator(F, domain=case["dx"])
        a = np.asarray(est.capture(S))
        b = np.asarray(est.capture(S, domain=case["dx"]))
    check(np.array_equal(a, b), "scalar-domain:value", "capture with the same scalar step differs from capture without domain")
    return ["nt:scalar-step"]


RULE = (
    "Hypothesis-generated tuples of 2-4 domains (2-12 points; uniform/non-uniform, ascending or permuted with their values; relation "
    "overlap/nested/identical/touching/disjoint/overlap-shorter-than-a-step) with arrays of rank 1-3 and the domain on any axis "
    "(axes None/int/list), stack/concatenate options; oracle = own rule (lo=max min, hi=min max, step0=max mean sorted step, "
    "intervals within 0.5 of (hi-lo)/step0) and own binary-search linear interpolation, plus own trapezoid for the estimator path. "
    "Non-trivial = the coarsest step does not divide the overlap, or a non-uniform/unsorted domain, or >=3 inputs (equalize); "
    "interpolation actually happened (capture/stack)."
    " Scalar axes span -ndim..ndim-1 (including 0); a sixth of the overlap cases use int64 wavelength grids with non-dividing overlaps."
    " Whole-number arrays as int64 are interpolated like the same numbers as floats."
)

PROP = Prop(
    pid="C19",
    title="Domain equalisation interpolates onto the exact overlap at coarsest resolution",
    rule=RULE,
    assumptions=[
        "domain gaps >= 1e-2 and |x| <= ~2e3 so that interpolation weights are accurate to 1e-11; tolerance 1e-9 x interpolated |values|",
        "overlap shorter than one coarsest step may be rejected (the statement only fixes the disjoint case)",
    ],
    subs=[
        Sub("equalize", equalize_case(), body_equalize, quick=2000, thorough=150000, quick_shards=2, min_nt_share=0.3,
            require_labels=("rejected", "identical")),
        Sub("stack", equalize_case(stackable=True), body_stack, quick=600, thorough=40000, min_nt_share=0.2),
        Sub("estimator_capture", capture_case(), body_capture, quick=800, thorough=60000, min_nt_share=0.3),
        Sub("scalar_step", scalar_case(), body_scalar, quick=100, thorough=2000, thorough_shards=2, min_nt_share=0.3),
    ],
)
