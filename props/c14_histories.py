"""C14 — estimator answers depend only on what is currently registered; queries are pure.

A *history* is a JSON list of steps (registration calls and ``fit()``), executed against one long-lived estimator. After the steps
the same query battery runs on the long-lived instance and on a *fresh twin* built directly from a stateless reference model of
the registered values; answers must agree (bit-identical for linear algebra / qhull / seeded sampling, solver tolerance for fits),
the closed-form queries must equal the model's own computation, and every query must leave the estimator and the caller's arrays
untouched.
"""
from __future__ import annotations

import itertools
import math

import numpy as np
from hypothesis import strategies as st

from vlib import gens
from vlib.core import Prop, Sub, Violation, calling, check
from vlib.oracles import trapz_np

M = 3          # receptors of the fixed universe
ND = 8         # domain points


def _bump(c, w, x):
    return [math.exp(-((v - c) / w) ** 2) for v in x]


X_DOM = [float(k) for k in range(ND)]
FILTERS = [_bump(1.5, 1.6, X_DOM), _bump(3.5, 1.4, X_DOM), _bump(5.5, 1.8, X_DOM)]
SRC_POOL = {
    "U": [_bump(0.8, 1.0, X_DOM), _bump(2.6, 0.9, X_DOM), _bump(4.4, 1.1, X_DOM), _bump(6.2, 1.0, X_DOM)],   # under-determined (4 sources)
    "E": [_bump(1.2, 1.2, X_DOM), _bump(3.6, 1.0, X_DOM), _bump(5.8, 1.3, X_DOM)],                            # exactly determined
    "O": [_bump(2.0, 1.5, X_DOM), _bump(5.0, 1.5, X_DOM)],                                                    # over-determined (2 sources)
}
BG = [0.3 + 0.1 * k for k in range(ND)]
SIG = [[1.0, 0.5, 0.2, 0.1, 0.0, 0.3, 0.6, 0.9], [0.2] * ND]
KMAT = [[1.2, -0.1, 0.0], [0.05, 0.9, -0.05], [0.0, -0.1, 1.1]]


# ------------------------------------------------------------------------------------------------
# stateless reference model


class Model:
    def __init__(self, filters, domain, w=None):
        self.F = np.asarray(filters, dtype=float)
        self.domain = domain
        self.w = np.ones(self.F.shape[0]) if w is None else np.asarray(w, dtype=float)
        self.K = np.atleast_1d(1.0)
        self.baseline = np.atleast_1d(0.0)
        self.sources = None
        self.lb = self.ub = None
        self.targets = None          # (B0, W or None, n_fits)

    # own capture (n_signals, n_filters)
    def capture(self, signals):
        S = np.atleast_2d(np.asarray(signals, dtype=float))
        x = np.asarray(self.domain, dtype=float) if isinstance(self.domain, list) else None
        dx = 1.0 if x is not None else float(self.domain)
        q, _ = trapz_np(S[:, None, :] * self.F[None, :, :], x=x, dx=dx)
        return q

    def relative(self, Q):
        T = Q + self.baseline
        return T * self.K if self.K.ndim <= 1 else T @ self.K.T

    @property
    def registered(self):
        return self.sources is not None

    @property
    def n(self):
        return None if self.sources is None else self.sources.shape[0]

    @property
    def A(self):
        if getattr(self, "trim", None):
            # sources registered on their own domain: a sub-range of the (uniform) filter grid - the common domain is that sub-range
            a, b = self.trim
            x = np.asarray(self.domain, dtype=float)
            sl = slice(a, len(x) - b)
            q, _ = trapz_np(self.sources[:, None, :] * self.F[None, :, sl], x=x[sl], dx=1.0)
            return q.T
        return self.capture(self.sources).T

    def apply(self, step):
        """update the model by the documented meaning of a step; returns the exception type expected from the estimator (or None)."""
        op = step["op"]
        if op == "system":
            self.sources = np.asarray(step["sources"], dtype=float)
            self.trim = step.get("trim")
            if self.trim:
                self.sources = self.sources[:, self.trim[0]: self.sources.shape[1] - self.trim[1]]
            n = self.sources.shape[0]
            self.lb = np.zeros(n) if step.get("lb") is None else np.broadcast_to(np.asarray(step["lb"], dtype=float), (n,)).copy()
            self.ub = np.full(n, np.inf) if step.get("ub") is None else np.broadcast_to(np.asarray(step["ub"], dtype=float), (n,)).copy()
            return None
        if op == "adaptation":
            self.K = np.atleast_1d(np.asarray(step["K"], dtype=float))
            return None
        if op == "baseline":
            self.baseline = np.atleast_1d(np.asarray(step["baseline"], dtype=float))
            return None
        if op == "bg_adapt":
            qb = self.capture(step["background"])[0]
            if step.get("add_baseline", True):
                qb = qb + self.baseline
            self.K = self.K + 1 / qb if step.get("add", False) else 1 / qb
            return None
        # the rest needs a registered system
        if not self.registered:
            return AssertionError
        n = self.n
        if op == "bounds":
            if step.get("lb") is not None:
                self.lb = np.broadcast_to(np.asarray(step["lb"], dtype=float), (n,)).copy()
            if step.get("ub") is not None:
                self.ub = np.broadcast_to(np.asarray(step["ub"], dtype=float), (n,)).copy()
            return None
        if op == "sys_adapt":
            x = np.broadcast_to(np.asarray(step["x"], dtype=float), (n,))
            qb = x @ self.A.T
            if step.get("add_baseline", True):
                qb = qb + self.baseline
            self.K = self.K + 1 / qb if step.get("add", False) else 1 / qb
            return None
        if op == "targets":
            self.targets = (np.asarray(step["B"], dtype=float), None if step.get("W") is None else np.asarray(step["W"], dtype=float), 0)
            return None
        if op == "fit":
            if self.targets is None:
                return AssertionError
            # fit() replaces the working targets by the fitted captures: the *values* are taken from the estimator after the
            # call (see run_history) and validated there against the bounded least-squares oracle for the state at fit time
            return None
        raise ValueError(op)


def build(model: Model, with_state=True):
    import dreye

    dom = np.asarray(model.domain, dtype=float) if isinstance(model.domain, list) else float(model.domain)
    est = dreye.ReceptorEstimator(model.F.copy(), domain=dom, w=model.w.copy(), K=(model.K.copy() if model.K.size > 1 else float(model.K[0])),
                                  baseline=(model.baseline.copy() if model.baseline.size > 1 else float(model.baseline[0])))
    if with_state and model.registered:
        tkw = {}
        if getattr(model, "trim", None):
            xd = np.asarray(model.domain, dtype=float)
            tkw["domain"] = xd[model.trim[0]: len(xd) - model.trim[1]].copy()
        est.register_system(model.sources.copy(), lb=model.lb.copy(), ub=(None if not np.all(np.isfinite(model.ub)) else model.ub.copy()), **tkw)
        if not np.all(np.isfinite(model.ub)) and np.any(np.isfinite(model.ub)):
            est.register_bounds(ub=model.ub.copy())
        if model.targets is not None:
            B0, W, k = model.targets
            est.register_targets(B0.copy(), W=(None if W is None else W.copy()))
    return est


def _bound_arg(v, held, what):
    """a bounds argument of register_system: whole numbers as an integer-typed array or a list of ints, other values as a float
    array that is read-only in half of the cases (chosen from the content); arrays handed over are remembered in `held`: the
    caller's arrays never change, whatever is registered later."""
    if v is None:
        return None
    if not np.ndim(v):
        return float(v)
    arr = np.asarray(v, dtype=float)
    pick = int(abs(float(arr.sum())) * 1e6) % 4
    if arr.size and np.all(arr == np.round(arr)) and pick in (0, 1):
        arg = gens.as_form(arr, "int" if pick == 0 else "intlist")
    else:
        arg = arr.copy()
        if pick >= 2:
            arg.flags.writeable = False
    if isinstance(arg, np.ndarray) and held is not None:
        held.append((what, arg, arg.tobytes()))
    return arg


def apply_to_estimator(est, step, n, held=None):
    op = step["op"]
    a = lambda v: None if v is None else (np.asarray(v, dtype=float) if np.ndim(v) else float(v))
    if op == "system":
        src_ = np.asarray(step["sources"], dtype=float)
        tkw = {}
        if step.get("trim"):
            xd = np.asarray(est.domain, dtype=float)
            src_ = src_[:, step["trim"][0]: src_.shape[1] - step["trim"][1]]
            tkw["domain"] = xd[step["trim"][0]: len(xd) - step["trim"][1]].copy()
        est.register_system(src_, lb=_bound_arg(step.get("lb"), held, "lb of register_system"), ub=_bound_arg(step.get("ub"), held, "ub of register_system"), **tkw)
    elif op == "adaptation":
        est.register_adaptation(a(step["K"]))
    elif op == "baseline":
        est.register_baseline(a(step["baseline"]))
    elif op == "bg_adapt":
        est.register_background_adaptation(np.asarray(step["background"], dtype=float), add_baseline=step.get("add_baseline", True), add=step.get("add", False))
    elif op == "bounds":
        lb, ub = step.get("lb"), step.get("ub")
        bc = lambda v: None if v is None else (np.broadcast_to(np.asarray(v, dtype=float), (n,)).copy() if n else np.asarray(v, dtype=float))
        est.register_bounds(lb=bc(lb), ub=bc(ub))
    elif op == "sys_adapt":
        x = np.broadcast_to(np.asarray(step["x"], dtype=float), (n,)).copy() if n else np.asarray(step["x"], dtype=float)
        est.register_system_adaptation(x, add_baseline=step.get("add_baseline", True), add=step.get("add", False))
    elif op == "targets":
        est.register_targets(np.asarray(step["B"], dtype=float), W=a(step.get("W")))
    elif op == "fit":
        est.fit()
    else:
        raise ValueError(op)


# ------------------------------------------------------------------------------------------------
# queries


def snapshot(est):
    out = {}
    for k, v in sorted(vars(est).items()):
        if isinstance(v, np.ndarray):
            out[k] = (v.shape, str(v.dtype), v.tobytes())
        else:
            out[k] = repr(v)
    return out


def outcome(fn):
    try:
        with np.errstate(all="ignore"):
            v = fn()
    except Exception as e:  # noqa: BLE001 - outcomes are compared, including the exception type
        return ("exc", type(e).__name__)
    if isinstance(v, tuple):
        return ("val", tuple(np.asarray(x, dtype=float) if not isinstance(x, np.ndarray) or x.dtype != object else x for x in v))
    if isinstance(v, (bool, np.bool_)):
        return ("val", (np.asarray(bool(v)),))
    return ("val", (np.asarray(v),))


def queries(n, heavy):
    """name -> (callable(est, inputs), tolerance or None for bit-identical). inputs are fresh copies per call."""
    Xq = None if n is None else np.array([[0.3] * n, [0.0] * n, [1.5] * n])
    Bq = np.array([[1.0, 1.0, 1.0], [0.4, 0.9, 0.6], [5.0, 0.1, 0.2]])
    sig = np.asarray(SIG, dtype=float)
    q = {
        "capture": (lambda e, i: e.capture(i["sig"]), None),
        "relative_capture": (lambda e, i: e.relative_capture(i["sig"]), None),
        "registered": (lambda e, i: e.registered, None),
        "underdetermined": (lambda e, i: e.underdetermined, None),
        "in_hull": (lambda e, i: e.in_hull(i["B"]), None),
        "in_hull_registered": (lambda e, i: e.in_hull(), None),
        "in_gamut_absolute": (lambda e, i: e.in_gamut(i["B"], relative=False), None),
        "in_hull_normalized": (lambda e, i: e.in_hull(i["B"], normalized=True), None),
        "sample_in_gamut_qmc": (lambda e, i: e.sample_in_gamut(4, seed=11, engine="Halton"), None),
        "range_of_solutions": (lambda e, i: e.range_of_solutions(i["B"][:2], error="ignore"), 2e-2),
        "sample_in_gamut": (lambda e, i: e.sample_in_gamut(5, seed=7), None),
        "compute_gamut": (lambda e, i: e.compute_gamut(seed=3), None),
        "gamut_l1_scaling": (lambda e, i: e.gamut_l1_scaling(i["B"]), None),
    }
    if Xq is not None:
        q["system_capture"] = (lambda e, i: e.system_capture(i["X"]), None)
        q["system_relative_capture"] = (lambda e, i: e.system_relative_capture(i["X"]), None)
        q["in_system"] = (lambda e, i: e.in_system(i["X"]), None)
    if heavy:
        q["fit"] = (lambda e, i: e.fit(i["B"][:2]), 2e-2)
        q["fit_underdetermined"] = (lambda e, i: e.fit_underdetermined(i["B"][:1], underdetermined_opt="min"), 2e-2)
        q["minimize_variance"] = (lambda e, i: e.minimize_variance(i["B"][:1]), 5e-2)
        q["gamut_dist_scaling"] = (lambda e, i: e.gamut_dist_scaling(i["B"]), 1e-9)
        q["fit_poisson"] = (lambda e, i: e.fit(i["B"][:1], model="poisson"), 5e-2)
        q["fit_adaptive"] = (lambda e, i: e.fit_adaptive(i["B"][:2]), 5e-2)
        if n is not None:
            # queries with non-default arguments are queries too: an explicit variance table / weights / neutral point for this one
            # call, followed by the plain call again (its answer is the registered state's, as the fresh twin's)
            q["minimize_variance_explicit_table"] = (lambda e, i: e.minimize_variance(i["B"][:1], Epsilon=i["Eps"]), 5e-2)
            q["minimize_variance_again"] = (lambda e, i: e.minimize_variance(i["B"][:1]), 5e-2)
            q["gamut_dist_scaling_explicit_neutral"] = (lambda e, i: e.gamut_dist_scaling(i["B"], neutral_point=np.array([1.0, 2.0, 0.5])), 1e-9)
            q["gamut_dist_scaling_again"] = (lambda e, i: e.gamut_dist_scaling(i["B"]), 1e-9)
    Eps = None if n is None else (0.1 + (np.arange(3 * n).reshape(3, n) % 3) * 0.5)
    inputs = dict(sig=sig, B=Bq, X=Xq, Eps=Eps)
    return q, inputs


def compare(name, a, b, tol, hist):
    if a[0] != b[0]:
        raise Violation(f"twin:{name}:outcome", f"after {hist}: long-lived estimator gives {a[0]} {a[1] if a[0] == 'exc' else ''}, fresh twin gives {b[0]} {b[1] if b[0] == 'exc' else ''}")
    if a[0] == "exc":
        check(a[1] == b[1], f"twin:{name}:exception", f"after {hist}: {a[1]} vs {b[1]}")
        return
    check(len(a[1]) == len(b[1]), f"twin:{name}:arity", f"after {hist}")
    for x, y in zip(a[1], b[1]):
        if x.dtype == object or y.dtype == object:
            continue
        check(x.shape == y.shape, f"twin:{name}:shape", f"after {hist}: {x.shape} vs {y.shape}")
        if tol is None:
            same = np.array_equal(x, y, equal_nan=True) if x.dtype.kind in "fc" else np.array_equal(x, y)
            if not same and x.dtype.kind in "fc":
                same = bool(np.all(np.abs(x - y) <= 1e-12 * (np.abs(x) + np.abs(y)) + 1e-300))
            check(same, f"twin:{name}:value", f"after {hist}: answers of the long-lived estimator and of a fresh estimator with the same registered values differ: {np.ravel(x)[:4].tolist()} vs {np.ravel(y)[:4].tolist()}")
        else:
            xx, yy = x.astype(float), y.astype(float)
            fin = np.isfinite(xx) & np.isfinite(yy)
            same_nonfinite = np.array_equal(np.where(fin, 0.0, xx), np.where(fin, 0.0, yy), equal_nan=True)
            check(bool(same_nonfinite and np.all(np.abs(xx[fin] - yy[fin]) <= tol * (1 + np.abs(xx[fin])))), f"twin:{name}:value",
                  f"after {hist}: answers differ beyond solver tolerance: {np.ravel(xx)[:4].tolist()} vs {np.ravel(yy)[:4].tolist()}")


def short(step):
    d = {k: v for k, v in step.items() if k != "op"}
    for k, v in list(d.items()):
        if isinstance(v, list) and len(json_len(v)) > 40:
            d[k] = "..."
    return f"{step['op']}({', '.join(f'{k}={v}' for k, v in d.items())})"


def json_len(v):
    import json
    return json.dumps(v)


def run_history(case, heavy):
    filters = case.get("filters", FILTERS)
    domain = case.get("domain", 1.0)
    model = Model(filters, domain, case.get("w"))
    with calling("ReceptorEstimator(...)"):
        est = build(model, with_state=False)
    labs = []
    hist = []
    held = []
    steps = case["steps"]
    for si, step in enumerate(steps):
        hist.append(short(step))
        n_before = model.n
        before = snapshot(est)
        expected_exc = model.apply(step)
        try:
            apply_to_estimator(est, step, n_before, held)
            raised = None
        except AssertionError as e:
            raised = AssertionError
        except Exception as e:  # noqa: BLE001
            if expected_exc is None:
                raise Violation(f"step:{step['op']}:exception:{type(e).__name__}", f"history {hist}: {type(e).__name__}: {str(e)[:200]}")
            raised = type(e)
        if expected_exc is not None:
            check(raised is not None, f"step:{step['op']}:not-rejected", f"history {hist}: expected {expected_exc.__name__} (no system/targets registered), but the call succeeded")
            check(snapshot(est) == before, f"step:{step['op']}:rejected-but-mutated", f"history {hist}: a rejected call changed the estimator")
            labs.append("rejected-step")
            continue
        if raised is not None:
            raise Violation(f"step:{step['op']}:unexpected-assertion", f"history {hist}: the call was rejected although its precondition holds")
        for what, arr, snap in held:
            check(arr.tobytes() == snap, "history:caller-array-modified", f"after {hist}: the array handed over as {what} was modified by a later call")
        if step["op"] == "fit":
            fit_update(est, model, hist)
        if case.get("check_every_step", False) or si == len(steps) - 1:
            battery(est, model, hist, heavy, labs)
    # non-triviality of the history
    ops = [s["op"] for s in steps]
    if len(set(ops)) < len(ops):
        labs.append("nt:re-registration")
    if "baseline" in ops and ("bg_adapt" in ops or "sys_adapt" in ops):
        labs.append("nt:order-sensitive-intermediate-state")
    if "fit" in ops:
        labs.append("nt:fit-then-default-target-query")
    if "system" in ops and ops.index("system") > 0:
        labs.append("nt:system-after-other-registrations")
    return labs


def fit_update(est, model, hist):
    """after fit(): the registered targets become the fitted captures - validate them against BVLS for the state at fit time."""
    from vlib.oracles import bvls, transform

    B_prev, W, _ = model.targets
    Ap, basep = transform(model.A, (model.K if model.K.size > 1 else float(model.K[0])), (model.baseline if model.baseline.size > 1 else float(model.baseline[0])))
    B_new = np.asarray(est.B, dtype=float)
    check(B_new.shape == B_prev.shape, "fit:shape", f"after {hist}: fitted captures have shape {B_new.shape}")
    Wm = np.broadcast_to(model.w if W is None else W, B_prev.shape)
    for b, w, got in zip(B_prev, Wm, B_new):
        xo, eo = bvls(Ap, basep, model.lb, model.ub, b, w)
        e = float(np.linalg.norm(w * (got - b)))
        check(e <= eo + 2e-2 * (1 + float(np.max(w))), "fit:not-optimal-for-registered-state",
              f"after {hist}: fit() used something else than the registered values: weighted error {e:.4g}, optimum for the registered K/baseline/bounds/weights {eo:.4g}")
    X = np.asarray(est.X, dtype=float)
    pred = X @ Ap.T + basep
    check(np.allclose(pred, B_new, rtol=1e-9, atol=1e-9), "fit:prediction", f"after {hist}: est.B is not the model capture of est.X")
    model.targets = (B_new.copy(), W, 0)


def battery(est, model, hist, heavy, labs):
    n = model.n
    q, inputs = queries(n, heavy)
    # the registered values held by the estimator must be the model's (to rounding) ...
    check(np.allclose(np.asarray(est.K, dtype=float), model.K, rtol=1e-10, atol=0) and np.asarray(est.K).shape == model.K.shape, "model:K",
          f"after {hist}: registered adaptation {np.ravel(est.K)[:4].tolist()} differs from the reference model {np.ravel(model.K)[:4].tolist()}")
    check(np.allclose(np.asarray(est.baseline, dtype=float), model.baseline, rtol=1e-12, atol=0), "model:baseline", f"after {hist}: registered baseline differs from the reference model")
    if model.registered:
        check(np.array_equal(np.asarray(est.lb, dtype=float), model.lb) and np.array_equal(np.asarray(est.ub, dtype=float), model.ub), "model:bounds",
              f"after {hist}: registered bounds lb={np.asarray(est.lb).tolist()} ub={np.asarray(est.ub).tolist()} differ from the reference model lb={model.lb.tolist()} ub={model.ub.tolist()}")
        if getattr(model, "trim", None):
            check(np.asarray(est.sources).shape == model.sources.shape and np.allclose(np.asarray(est.sources, dtype=float), model.sources, rtol=1e-12, atol=1e-300),
                  "model:sources", f"after {hist}: registered sources (own domain) differ from the reference model")
        else:
            check(np.array_equal(np.asarray(est.sources, dtype=float), model.sources), "model:sources", f"after {hist}: registered sources differ from the reference model")
    # ... and the twin is built from exactly those values (bit-identical inputs => bit-identical answers are required)
    tm = Model(model.F, model.domain, model.w)
    tm.K, tm.baseline = np.asarray(est.K, dtype=float).copy(), np.asarray(est.baseline, dtype=float).copy()
    tm.sources, tm.lb, tm.ub, tm.targets = model.sources, model.lb, model.ub, model.targets
    tm.trim = getattr(model, "trim", None)
    with calling("twin construction"):
        twin = build(tm)
    # (1) closed-form answers from the model
    sig = inputs["sig"]
    Q = model.capture(sig)
    with calling("capture"):
        got = np.asarray(est.capture(sig.copy()))
    check(np.allclose(got, Q, rtol=1e-10, atol=1e-300), "model:capture", f"after {hist}: capture differs from the trapezoid of signal x filter")
    with calling("relative_capture"):
        got = np.asarray(est.relative_capture(sig.copy()))
    check(np.allclose(got, model.relative(Q), rtol=1e-10, atol=1e-12), "model:relative_capture",
          f"after {hist}: relative capture {np.ravel(got)[:3].tolist()} != K(Q+baseline) = {np.ravel(model.relative(Q))[:3].tolist()} for the registered K, baseline")
    check(bool(est.registered) == model.registered, "model:registered", f"after {hist}")
    if model.registered:
        X = inputs["X"]
        A = model.A
        with calling("system_capture"):
            got = np.asarray(est.system_capture(X.copy()))
        check(np.allclose(got, X @ A.T, rtol=1e-10, atol=1e-12), "model:system_capture", f"after {hist}: system capture does not use the registered sources")
        with calling("system_relative_capture"):
            got = np.asarray(est.system_relative_capture(X.copy()))
        check(np.allclose(got, model.relative(X @ A.T), rtol=1e-10, atol=1e-12), "model:system_relative_capture", f"after {hist}")
        with calling("in_system"):
            got = np.asarray(est.in_system(X.copy()))
        check(np.array_equal(got, (X >= model.lb) & (X <= model.ub)), "model:in_system",
              f"after {hist}: in_system disagrees with the registered bounds lb={model.lb.tolist()} ub={model.ub.tolist()}")
        check(bool(est.underdetermined) == (A.shape[0] < A.shape[1]), "model:underdetermined", f"after {hist}")
        if model.targets is not None:
            check(np.array_equal(np.asarray(est.B), model.targets[0]), "model:targets", f"after {hist}: registered targets differ")
    # (2) twin agreement + (3) purity
    for name, (fn, tol) in q.items():
        i1 = {k: (None if v is None else v.copy()) for k, v in inputs.items()}
        i2 = {k: (None if v is None else v.copy()) for k, v in inputs.items()}
        before = snapshot(est)
        a = outcome(lambda: fn(est, i1))
        after = snapshot(est)
        # private attributes (leading underscore) may hold caches: they are not part of the registered state, and a stale cache
        # shows up as a disagreement with the fresh twin; everything else must be byte-identical and no public attribute may appear
        changed = [k for k in after if before.get(k) != after.get(k) and not k.startswith("_")] + [k for k in before if k not in after]
        if changed:
            raise Violation(f"purity:{name}:estimator-mutated", f"after {hist}: query {name} changed estimator attributes {changed}")
        before = after
        for k, v in inputs.items():
            if v is not None:
                check(np.array_equal(i1[k], v), f"purity:{name}:input-mutated", f"after {hist}: query {name} modified the caller's array '{k}'")
        a2 = outcome(lambda: fn(est, {k: (None if v is None else v.copy()) for k, v in inputs.items()}))
        compare(name + ":repeat", a, a2, tol, hist)
        b = outcome(lambda: fn(twin, i2))
        compare(name, a, b, tol, hist)
        labs.append(f"q:{name}:{a[0]}")
    # read-only inputs must be accepted by the closed-form queries (no in-place writes)
    ro = sig.copy()
    ro.setflags(write=False)
    with calling("capture(read-only array)"):
        est.capture(ro)
        est.relative_capture(ro)


# ------------------------------------------------------------------------------------------------
# symbol pool and generators


def symbol_pool():
    return [
        dict(op="system", sources=SRC_POOL["U"], ub=[1.0, 2.0, 1.5, 1.0]),
        dict(op="system", sources=SRC_POOL["E"], lb=[0.05, 0.0, 0.1], ub=[2.0, 1.0, 1.5]),
        dict(op="system", sources=SRC_POOL["O"]),
        dict(op="bounds", lb=0.1),
        dict(op="bounds", ub=3.0),
        dict(op="adaptation", K=2.0),
        dict(op="adaptation", K=[1.5, 0.5, 2.0]),
        dict(op="adaptation", K=KMAT),
        dict(op="baseline", baseline=[0.1, 0.2, 0.05]),
        dict(op="baseline", baseline=0.0),
        dict(op="bg_adapt", background=BG),
        dict(op="bg_adapt", background=BG, add=True, add_baseline=False),
        dict(op="sys_adapt", x=0.5),
        dict(op="sys_adapt", x=0.25, add=True),
        dict(op="targets", B=[[1.0, 1.0, 1.0], [0.5, 1.2, 0.8]]),
        dict(op="targets", B=[[0.7, 0.7, 0.9], [2.0, 0.1, 0.1]], W=[[1.0, 2.0, 0.5], [0.5, 1.0, 2.0]]),
        dict(op="fit"),
    ]


def enum_histories(tier):
    pool = symbol_pool()
    L = 2 if tier == "quick" else 3
    cases = []
    for k in range(1, L + 1):
        for seq in itertools.product(range(len(pool)), repeat=k):
            cases.append(dict(steps=[pool[i] for i in seq], idx=list(seq)))
    if tier == "quick":
        # plus all length-3 histories that start by registering a system (the interesting part of the space), cheap battery
        for s0 in (0, 1, 2):
            for a, b in itertools.product(range(3, len(pool)), repeat=2):
                cases.append(dict(steps=[pool[s0], pool[a], pool[b]], idx=[s0, a, b]))
    return cases


def body_enum(case):
    return run_history(case, heavy=(len(case["steps"]) <= 2))


@st.composite
def random_history(draw):
    """random histories of 3-10 steps with drawn arguments (own universe: filters, domain, weights)."""
    nd = draw(st.integers(5, 10))
    kind = draw(st.sampled_from(["step", "array", "uniform-array"]))
    if kind == "uniform-array":
        nd = draw(st.integers(8, 12))
        h_ = draw(st.sampled_from([1.0, 0.5, 2.0, 5.0]))
        domain = [300.0 + k * h_ for k in range(nd)]
    else:
        domain = draw(st.sampled_from([1.0, 0.5, 2.0])) if kind == "step" else draw(gens.ascending_domain(nd, lo_gap=0.2, hi_gap=3.0))
    x = [k * domain for k in range(nd)] if kind == "step" else domain
    span = (x[-1] - x[0]) or 1.0

    def bumps(k):
        cs = draw(st.lists(st.floats(0.05, 0.95), min_size=k, max_size=k))
        ws = draw(st.lists(st.floats(0.1, 0.5), min_size=k, max_size=k))
        return [[math.exp(-(((v - x[0]) / span - c) / w) ** 2) + 0.01 for v in x] for c, w in zip(cs, ws)]

    filters = bumps(M)
    w = draw(st.one_of(st.none(), gens.array((M,), 0.5, 2.0, styles=("raw",))))
    steps = []
    n = None
    k = draw(st.integers(3, 10))
    for _ in range(k):
        op = draw(st.sampled_from(["system", "system", "bounds", "adaptation", "baseline", "bg_adapt", "sys_adapt", "targets", "targets", "fit"]))
        if op == "system":
            n = draw(st.integers(2, 5))
            ub = draw(st.one_of(st.none(), gens.array((n,), 0.5, 5.0, styles=("raw",))))
            if ub is not None and draw(st.integers(0, 2)) == 0:
                ub = [float(max(1, round(u))) for u in ub]          # whole-number bounds (handed over as integers, see _bound_arg)
            lb = draw(st.one_of(st.none(), st.just([0.0] * n)))
            if ub is not None and draw(st.integers(0, 2)) == 0:
                lb = [0.1 * u for u in ub]
            st_ = dict(op="system", sources=bumps(n), lb=lb, ub=ub)
            if kind == "uniform-array" and draw(st.booleans()):
                # the sources come on their own (narrower) wavelength grid: a sub-range of the filters' grid
                st_["trim"] = [draw(st.integers(0, 2)), draw(st.integers(0, 2))]
                if st_["trim"] == [0, 0]:
                    st_["trim"] = [1, 0]
            steps.append(st_)
        elif op == "bounds":
            which = draw(st.sampled_from(["lb", "ub", "both"]))
            s = dict(op="bounds")
            if which in ("lb", "both"):
                s["lb"] = draw(st.floats(0.0, 0.2))
            if which in ("ub", "both"):
                s["ub"] = draw(st.floats(0.5, 6.0))
            steps.append(s)
        elif op == "adaptation":
            kk = draw(st.sampled_from(["scalar", "vector", "matrix"]))
            if kk == "scalar":
                K = draw(st.floats(0.2, 5.0))
            elif kk == "vector":
                K = draw(gens.array((M,), 0.2, 5.0, styles=("raw",)))
            else:
                P = np.asarray(draw(gens.array((M, M), -0.2, 0.2, styles=("raw",)))).reshape(M, M)
                K = (np.eye(M) + P * (1 - np.eye(M))).tolist()
            steps.append(dict(op="adaptation", K=K))
        elif op == "baseline":
            steps.append(dict(op="baseline", baseline=draw(st.one_of(st.just(0.0), gens.scalar(0.0, 1.0, tiny=1e-3), gens.array((M,), 0.0, 1.0, tiny=1e-3)))))
        elif op == "bg_adapt":
            steps.append(dict(op="bg_adapt", background=draw(gens.array((nd,), 0.1, 2.0, styles=("raw",))), add=draw(st.booleans()), add_baseline=draw(st.booleans())))
        elif op == "sys_adapt":
            steps.append(dict(op="sys_adapt", x=draw(st.floats(0.1, 1.0)), add=draw(st.booleans()), add_baseline=draw(st.booleans())))
        elif op == "targets":
            r = draw(st.integers(1, 3))
            B = draw(gens.array((r, M), 0.05, 3.0, styles=("raw",)))
            W = draw(st.one_of(st.none(), st.none(), gens.array((r, M), 0.5, 2.0, styles=("raw",))))
            steps.append(dict(op="targets", B=B, W=W))
        else:
            steps.append(dict(op="fit"))
    return dict(filters=filters, domain=domain, w=w, steps=steps, check_every_step=draw(st.booleans()))


def body_random(case):
    # queries that need fixed-size inputs use SIG of the fixed universe: adapt to this universe's domain length
    global SIG
    nd = len(case["filters"][0])
    old = SIG
    SIG = [[(0.1 + 0.13 * ((3 * k) % 7)) for k in range(nd)], [0.2] * nd]
    try:
        return run_history(case, heavy=True)
    finally:
        SIG = old


RULE = (
    "Histories over the alphabet {register_system (under-/exactly-/over-determined source sets, with/without bounds), register_bounds (lb / ub), "
    "register_adaptation (scalar/vector/matrix), register_baseline, register_background_adaptation (replace / add, with/without baseline), "
    "register_system_adaptation (replace / add), register_targets (with/without per-sample W), fit()}: (i) exhaustive enumeration of every "
    "sequence up to length 2 (quick; plus every length-3 sequence that starts with a system registration) / 3 (thorough) over a pool of 17 "
    "concrete symbols, (ii) Hypothesis-generated histories of 3-10 steps with drawn arguments in a drawn universe (filters, scalar-step or "
    "non-uniform domain, weights), checked after every step or at the end. Oracle: stateless reference model (closed-form answers for "
    "captures, relative captures, system captures, bounds tests, flags), a fresh twin estimator built from the model's registered values "
    "(bit-identical answers for linear algebra / qhull / seeded sampling, solver tolerance for fits; same exception type when a query is "
    "rejected), purity (byte snapshot of every estimator attribute and of every caller array around each query, repeated query gives the same "
    "answer, read-only inputs accepted), and rejected registrations leave the estimator unchanged. Non-trivial = a re-registration, an "
    "order-sensitive intermediate state (baseline with background/system adaptation), a fit() followed by default-target queries, or a system "
    "registered after other registrations."
    " Bounds of register_system are handed over as int64 arrays / lists of ints (whole numbers) or read-only float arrays; every array handed over is byte-compared after each later step."
    " The heavy query battery contains calls with non-default arguments (explicit variance table, explicit neutral point) followed by the plain call."
)

PROP = Prop(
    pid="C14",
    title="Estimator answers depend only on what is currently registered; queries are pure",
    rule=RULE,
    assumptions=["the fresh twin is constructed through the public constructor + register_system + register_targets (+ the same number of fit() calls)",
                 "fits are compared at 2e-2 relative (default solver settings, warm starts differ between the two instances)"],
    subs=[
        Sub("exhaustive_histories", None, body_enum, enumerate_cases=enum_histories, quick=1, thorough=1, quick_shards=16, thorough_shards=16, min_nt_share=0.2),
        Sub("random_histories", random_history(), body_random, quick=320, thorough=8000, quick_shards=16, min_nt_share=0.3),
    ],
)
