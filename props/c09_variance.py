"""C09 — variance minimisation keeps the fit quality and minimises capture variance."""
from __future__ import annotations

import numpy as np
from hypothesis import strategies as st

from vlib import gens
from vlib.core import unchanged, Prop, Sub, Violation, calling, check
from vlib.oracles import bvls, lp_dist, lp_sum_extreme
from vlib.systems import whole_number_model, proportional_variant, Sys, matrix_system, target_rows

HIGH = dict(solver="CLARABEL", tol_gap_abs=1e-9, tol_gap_rel=1e-9, tol_feas=1e-9, max_iter=500)


def var_system():
    return matrix_system(m=(2, 4), n=(2, 6), shape=None, ub_kinds=("finite",), lb_kinds=("zero", "zero", "pos"), sub_cond=1e4)


@st.composite
def var_case(draw):
    shape = draw(st.sampled_from(["under", "under", "exact"]))
    sysd = draw(matrix_system(m=(2, 4), shape=shape, surplus=(1, 3), ub_kinds=("finite",), lb_kinds=("zero", "zero", "pos"), sub_cond=1e4))
    sysd, _prop = draw(proportional_variant(sysd))
    sv = Sys(sysd)
    rows = draw(target_rows(sysd, ["interior", "interior", "outside", "scaled_out"], nrows=(1, 3), margin=(0.05, 0.45)))
    ek = draw(st.sampled_from(["none", "none_fn", "hetero", "explicit", "explicit", "explicit_est", "unc2d", "unc3d"]))
    eps_abs = None
    samples = None
    if ek in ("explicit", "explicit_est", "unc2d"):
        eps_abs = draw(gens.array((sv.m, sv.n), 0.01, 4.0, styles=("raw",)))
    elif ek == "unc3d":
        S = draw(st.integers(2, 4))
        samples = draw(gens.array((S, sv.m, sv.n), 0.0, 1.0, styles=("raw",)))
    use_l1 = draw(st.booleans())
    W = draw(st.one_of(st.none(), gens.array((sv.m,), 0.4, 2.5, styles=("raw",))))
    return dict(system=sysd, rows=rows, eps_kind=ek, eps=eps_abs, samples=samples, use_l1=use_l1, l1_t=draw(st.floats(0.0, 1.0)), W=W,
                l2_eps=draw(gens.log_uniform(1e-4, 1e-2)), l1_eps=draw(gens.log_uniform(1e-3, 1e-1)),
                accuracy=draw(st.sampled_from(["high", "high", "default"])), repeat=draw(st.sampled_from([False, False, True])), proportional=_prop,
                batch_size=draw(st.sampled_from([None, None, None, 2, 3, "full"])),
                # the attainable error may be supplied by the caller (norm=): one value per sample, or one number for all
                norm_mode=draw(st.sampled_from([None, None, None, "array", "scalar"])))


def two_point_estimator(sv, w):
    """estimator whose capture matrix is exactly A with sources that span two domain points each: filters repeat A[:, k] at the
    points 2k+1 and 2k+2 of a unit-step domain, source k is 1/2 at both (zero-padded ends)"""
    import dreye

    filt = np.zeros((sv.m, 2 * sv.n + 2))
    filt[:, 1:-1:2] = sv.A
    filt[:, 2:-1:2] = sv.A
    src = np.zeros((sv.n, 2 * sv.n + 2))
    src[np.arange(sv.n), 2 * np.arange(sv.n) + 1] = 0.5
    src[np.arange(sv.n), 2 * np.arange(sv.n) + 2] = 0.5
    kw = {}
    if sv.K_raw is not None:
        kw["K"] = sv.K_raw if np.ndim(sv.K_raw) == 0 else np.asarray(sv.K_raw, dtype=float)
    if sv.base_raw is not None:
        kw["baseline"] = sv.base_raw if np.ndim(sv.base_raw) == 0 else np.asarray(sv.base_raw, dtype=float)
    if w is not None:
        kw["w"] = w
    return dreye.ReceptorEstimator(filt, domain=1.0, **kw), src


def propagated(eps_abs, K):
    E = np.asarray(eps_abs, dtype=float)
    if K is None:
        return E
    K = np.asarray(K, dtype=float)
    if K.ndim == 0:
        return E * float(K) ** 2
    if K.ndim == 1:
        return E * (K ** 2)[:, None]
    return (K ** 2) @ E


def variance_witness(sv, b, w, Ep, delta, L1, l1_eps, starts):
    from scipy.optimize import minimize

    col = Ep.sum(axis=0)
    rhs = b - sv.basep
    f = lambda x: float(col @ x ** 2)
    g = lambda x: 2 * col * x
    cons = [dict(type="ineq", fun=lambda x: delta ** 2 - float(np.sum((w * (sv.Ap @ x - rhs)) ** 2)),
                 jac=lambda x: -2 * (sv.Ap * w[:, None]).T @ (w * (sv.Ap @ x - rhs)))]
    if L1 is not None:
        cons.append(dict(type="ineq", fun=lambda x: l1_eps - (np.sum(x) - L1)))
        cons.append(dict(type="ineq", fun=lambda x: l1_eps + (np.sum(x) - L1)))
    best = None
    for x0 in starts:
        try:
            r = minimize(f, x0, jac=g, bounds=list(zip(sv.lb, sv.ub)), constraints=cons, method="SLSQP", options=dict(maxiter=500, ftol=1e-14))
        except Exception:
            continue
        x = np.clip(r.x, sv.lb, sv.ub)
        ok = np.linalg.norm(w * (sv.Ap @ x - rhs)) <= delta * (1 + 1e-9) + 1e-12
        if L1 is not None:
            ok = ok and abs(np.sum(x) - L1) <= l1_eps * (1 + 1e-9) + 1e-12
        if not ok:
            continue
        v = f(x)
        if best is None or v < best[0]:
            best = (v, x)
    return best


def body_var(case):
    sv = Sys(case["system"])
    B = np.array([r["b"] for r in case["rows"]], dtype=float)
    ek = case["eps_kind"]
    l2_eps, l1_eps = case["l2_eps"], case["l1_eps"]
    high = case["accuracy"] == "high"
    w = np.ones(sv.m) if case.get("W") is None else np.maximum(np.asarray(case["W"], dtype=float), 0.4)
    w_arg = None if case.get("W") is None else w
    # reference fits and L1 request
    refs = [bvls(sv.Ap, sv.basep, sv.lb, sv.ub, b, w) for b in B]
    if case["use_l1"] and any(eo > 1e-9 * sv.extent for _, eo in refs):
        # an L1 request on an out-of-gamut target leaves a sliver of a feasible set (the best fit is unique): a user-chosen
        # interior-point solver may fail numerically there, so this combination runs with default settings (which fall back to SCS)
        high = False
    opt = dict(HIGH) if high else {}
    if case.get("batch_size") is not None:
        opt["batch_size"] = case["batch_size"]          # a performance setting: several targets stacked into one problem
    nm = case.get("norm_mode")
    eos = np.array([eo for _, eo in refs], dtype=float)
    if nm == "array":
        opt["norm"] = eos.copy()
    elif nm == "scalar" and float(np.max(eos)) <= 1e-9 * sv.extent:
        opt["norm"] = 0.0                               # every target is in the gamut: nothing is lost by not fitting first
    else:
        nm = None
    L1 = None
    if case["use_l1"]:
        L1 = []
        for b, (xo, eo) in zip(B, refs):
            d, _ = lp_dist(sv.Ap, sv.basep, sv.lb, sv.ub, b)
            if d <= 1e-9 * sv.extent and sv.n > sv.m:
                lo = lp_sum_extreme(sv.Ap, sv.basep, sv.lb, sv.ub, b, maximize=False)
                hi = lp_sum_extreme(sv.Ap, sv.basep, sv.lb, sv.ub, b, maximize=True)
                if lo is not None and hi is not None:
                    L1.append((1 - case["l1_t"]) * lo[0] + case["l1_t"] * hi[0])
                    continue
            L1.append(float(np.sum(xo)))
        L1 = np.asarray(L1)
    # build the call
    kw_est = {}
    est_unc = None
    if ek == "unc2d":
        sig = np.zeros((sv.m, sv.n + 2))
        sig[:, 1:-1] = np.sqrt(np.asarray(case["eps"], dtype=float))
        est_unc = sig
        eps_abs = np.asarray(case["eps"], dtype=float)
    elif ek == "unc3d":
        # filter samples; every source spans TWO domain points (weights 1/2 each), whose sample values differ (the second point
        # takes the samples in reverse order): the capture variance includes their covariance along the domain
        S = np.asarray(case["samples"], dtype=float)
        pad = np.zeros((S.shape[0], sv.m, 2 * sv.n + 2))
        pad[:, :, 1:-1:2] = S
        pad[:, :, 2:-1:2] = S[::-1]
        est_unc = pad
        eps_abs = np.var(0.5 * S + 0.5 * S[::-1], axis=0)
    elif ek in ("explicit", "explicit_est"):
        eps_abs = np.asarray(case["eps"], dtype=float)
        if ek == "explicit_est":
            # the matrix is registered with the system on an estimator that ALSO carries a filter uncertainty: the explicit one counts
            sig = np.zeros((sv.m, sv.n + 2))
            sig[:, 1:-1] = np.sqrt(eps_abs[::-1, ::-1]) * 1.7
            est_unc = sig
    else:
        eps_abs = None
    Ep = sv.Ap ** 2 if eps_abs is None else propagated(eps_abs, sv.K_raw)
    with calling(f"minimize_variance(Epsilon={ek})"):
        if ek in ("unc2d", "unc3d", "none", "explicit_est"):
            import dreye
            if ek == "unc3d":
                est, src = two_point_estimator(sv, w_arg)
            else:
                est = sv.make_estimator(w=w_arg, with_system=False)
                src = np.zeros((sv.n, sv.n + 2))
                src[np.arange(sv.n), np.arange(sv.n) + 1] = 1.0
            if est_unc is not None:
                est.register_uncertainty(est_unc)
            est.register_system(src, lb=sv.lb_arg(), ub=sv.ub_arg(), **(dict(Epsilon=eps_abs.copy()) if ek == "explicit_est" else {}))
            with unchanged("var", estimator=est):
                X, Bp, Bv = est.minimize_variance(B, l2_eps=l2_eps, L1=L1, l1_eps=l1_eps, **opt)
            if case.get("repeat"):
                again = est.minimize_variance(B, l2_eps=l2_eps, L1=L1, l1_eps=l1_eps, **opt)
        else:
            from dreye.api.optimize.lsq_linear import lsq_linear_minimize

            Earg = "heteroscedastic" if ek == "hetero" else (None if ek == "none_fn" else eps_abs)
            E0 = Earg.copy() if isinstance(Earg, np.ndarray) else None
            X, Bp, Bv = lsq_linear_minimize(sv.A, B, Earg, W=w_arg, l2_eps=l2_eps, L1=L1, l1_eps=l1_eps, return_pred=True, **sv.kwargs(), **opt)
            if E0 is not None:
                check(np.array_equal(E0, Earg), "var:input-modified", "the caller's variance matrix was modified by the call")
            if case.get("repeat"):
                again = lsq_linear_minimize(sv.A, B, Earg, W=w_arg, l2_eps=l2_eps, L1=L1, l1_eps=l1_eps, return_pred=True, **sv.kwargs(), **opt)
            # whole-number targets (counts): the int64 array gets the result of the same numbers as floats (no L1 request, no norm)
            whole = np.round(B)
            opt_w = {k: v for k, v in opt.items() if k != "norm"}
            wm = whole_number_model(sv) if B.shape[0] % 2 else None      # half of the cases: K and baseline whole numbers too
            kw_i, kw_f = (sv.kwargs(), sv.kwargs()) if wm is None else (dict(sv.kwargs(), **wm[0]), dict(sv.kwargs(), **wm[1]))
            with calling(f"lsq_linear_minimize(Epsilon={ek}) of whole-number targets{'' if wm is None else ', K and baseline'} (int64 / float64)"):
                Xi = np.asarray(lsq_linear_minimize(sv.A, whole.astype(np.int64), Earg, W=w_arg, l2_eps=l2_eps, **kw_i, **opt_w))
                Xf = np.asarray(lsq_linear_minimize(sv.A, whole.copy(), Earg, W=w_arg, l2_eps=l2_eps, **kw_f, **opt_w))
            check(Xi.shape == Xf.shape and np.all(np.abs(Xi - Xf) <= 1e-6 * float(np.max(sv.ub - sv.lb))), "var:integer-targets-differ",
                  f"targets {whole.tolist()} as an int64 array give {Xi.tolist()}, as floats {Xf.tolist()} (Epsilon={ek})")
    X, Bp, Bv = np.asarray(X), np.asarray(Bp), np.asarray(Bv)
    check(X.shape == (B.shape[0], sv.n) and Bp.shape == B.shape and Bv.shape == B.shape, "var:shape", f"{X.shape} {Bp.shape} {Bv.shape}")
    labs = sv.labels() + [f"eps:{ek}", "L1" if L1 is not None else "noL1", "acc:high" if high else "acc:default", "W" if w_arg is not None else "noW"]
    if case.get("proportional"):
        labs.append("proportional-sources")
    if case.get("batch_size") is not None:
        labs.append(f"batch:{case['batch_size']}")
    if nm:
        labs.append(f"norm:{nm}")
    if case.get("repeat"):
        # the same request on the same estimator / with the same arrays: the variance model in force must not drift between calls
        for name, a, b_ in zip(("intensities", "predicted capture", "capture variance"), (X, Bp, Bv), again):
            b_ = np.asarray(b_)
            check(a.shape == b_.shape and np.all(np.abs(a - b_) <= 1e-7 * (np.abs(a) + 1e-6 * float(np.max(np.abs(a))) + 1e-300)), "var:second-call-differs",
                  f"{name} of an identical second call differ: {a.tolist()} vs {b_.tolist()} (Epsilon={ek})")
        labs.append("repeated-call")
    rng = sv.ub - sv.lb
    tolx = (1e-5 if high else 1e-2) * float(np.max(rng))
    check(np.all(X >= sv.lb - tolx) and np.all(X <= sv.ub + tolx), "var:bounds", f"intensities {X.tolist()} outside [{sv.lb.tolist()}, {sv.ub.tolist()}]")
    model = sv.predict(X)
    mag = np.abs(X) @ np.abs(sv.Ap).T + np.abs(sv.basep)
    check(np.all(np.abs(Bp - model) <= 1e-9 * mag + 1e-300), "var:prediction", "B_pred is not the model's capture of X")
    # (c) reported variance = variance model applied to the returned intensities
    exp_var = X ** 2 @ Ep.T
    # (a variance of identical samples comes out as 1e-33 rather than 0 in another order of summation: absolute floor)
    check(np.all(np.abs(Bv - exp_var) <= 1e-9 * (np.abs(exp_var) + 1e-300) * 10 + 1e-20 * (1.0 + float(np.max(X ** 2)))), "var:reported-variance",
          f"reported capture variance {Bv.tolist()} != variance model applied to X {exp_var.tolist()} (Epsilon={ek}, K={'none' if sv.K_raw is None else np.ndim(sv.K_raw)})",
          observed=dict(got=Bv.tolist(), expected=exp_var.tolist()))
    col = Ep.sum(axis=0)
    captol = 1e-4 if high else 2e-2
    if case.get("batch_size") is not None and not high:
        # default accuracy is relative to the whole stacked problem: a far out-of-gamut target in the same batch (error 26) costs the
        # in-gamut one about 1e-3 of that
        captol += 2e-3 * float(np.max(eos))
    for i, b in enumerate(B):
        xo, eo = refs[i]
        x = np.clip(X[i], sv.lb, sv.ub)
        e = float(np.linalg.norm(w * (sv.predict(x) - b)))
        check(e <= eo + l2_eps + captol, "var:fit-quality", f"capture error {e:.6g} exceeds the best achievable {eo:.6g} + l2_eps {l2_eps:.3g}",
              observed=dict(b=b.tolist(), x=x.tolist()))
        if L1 is not None:
            check(abs(float(np.sum(x)) - L1[i]) <= l1_eps + (1e-5 if high else 1e-2) * float(np.sum(rng)), "var:L1",
                  f"total intensity {np.sum(x):.6g} misses the request {L1[i]:.6g} by more than l1_eps {l1_eps:.3g}")
        v_code = float(col @ x ** 2)
        delta = eo + l2_eps
        starts = [xo, x, (sv.lb + sv.ub) / 2]
        wit = variance_witness(sv, b, w, Ep, delta, (None if L1 is None else L1[i]), l1_eps, starts)
        if wit is None:
            labs.append("no-witness")
            continue
        v_wit, xw = wit
        tol = (2e-3 if high else 5e-2) * (1.0 + v_wit)
        check(v_code <= v_wit + tol, "var:not-minimal",
              f"summed capture variance {v_code:.6g} of the returned intensities exceeds {v_wit:.6g} of a feasible witness (Epsilon={ek})",
              observed=dict(b=b.tolist(), x=x.tolist(), witness=xw.tolist()))
        if L1 is None:
            v_fit = float(col @ xo ** 2)
            check(v_code <= v_fit + tol, "var:worse-than-ordinary-fit", f"variance {v_code:.6g} larger than that of the ordinary fit {v_fit:.6g}")
            if v_fit > v_wit * (1 + 1e-4) + 1e-9:
                labs.append("nt:variance-reduced")
        else:
            labs.append("nt:L1-request")
    if ek in ("unc2d", "unc3d", "explicit", "explicit_est") and sv.K_raw is not None:
        labs.append("nt:propagated-through-K")
    return labs


RULE = (
    "Hypothesis-generated under- and exactly-determined well-scaled systems (2-4 receptors, up to 3 surplus sources, lb zero/positive, finite ub, K "
    "none/scalar/vector/matrix, baseline), in- and out-of-gamut targets, variance model in {None, 'heteroscedastic', explicit matrix, "
    "derived from a 2-D filter standard deviation, derived from 3-D filter samples}, with/without an L1 request placed inside the achievable "
    "range, optional receptor weights in [0.4,2.5], l2_eps in [1e-4,1e-2]; high-accuracy CLARABEL pass-through (2/3) and default settings (1/3). Oracle: BVLS for the best achievable "
    "error; SLSQP witnesses (verified feasible) for the minimal variance; closed form K^2-propagation for the reported variance. "
    "Non-trivial = the variance optimum is below the ordinary fit's variance, an L1 request is active, or a variance matrix is propagated through K."
    " batch_size in {None,2,3,full} with 1-3 targets; a third of the cases repeat the identical call on the same estimator / arrays (results equal, the variance matrix of the caller byte-identical); a fifth have proportional sources."
    " Function entry: rounded targets (in half of the cases also rounded K and baseline) as int64 and as floats give equal intensities."
)

PROP = Prop(
    pid="C09",
    title="Variance minimisation keeps the fit quality and minimises capture variance",
    rule=RULE,
    assumptions=["witness principle (SLSQP minimisers verified feasible)", "estimator-level variance models use one-hot sources on a unit-step domain so that the capture of a filter row is its value"],
    subs=[
        Sub("minimize_variance", var_case(), body_var, quick=1000, thorough=15000, quick_shards=8, min_nt_share=0.3),
    ],
)
