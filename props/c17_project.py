"""C17 — hull projections return the nearest point, the boundary hit and the exact slice."""
from __future__ import annotations

import numpy as np
from hypothesis import strategies as st

from vlib import gens
from vlib.core import Prop, Sub, Violation, calling, check
from vlib.oracles import _linprog, hull_dist


def _dreye():
    import dreye
    return dreye


@st.composite
def cloud(draw, dmin=2, dmax=5, nonneg=False, allow_few=False):
    d = draw(st.integers(dmin, dmax))
    kind = draw(st.sampled_from(["random", "random", "lattice", "few"] if allow_few else ["random", "random", "lattice"]))
    if kind == "few":
        k = draw(st.integers(2, d))
    else:
        k = draw(st.integers(d + 1, d + 9))
    lo = 0.0 if nonneg else -5.0
    if kind == "lattice":
        P = np.asarray(draw(gens.array((k + 4, d), 0.0, 3.0, styles=("int100",))), dtype=float).reshape(k + 4, d)
        if not nonneg:
            P = P - 1.0
    else:
        # coordinates are exactly zero or at least 1e-6 of the cloud's size: clouds that are flat "up to 1e-80" are not geometry
        P = np.asarray(draw(gens.array((k, d), lo, 5.0, styles=("raw",), tiny=1e-5)), dtype=float).reshape(k, d)
    if kind != "few":
        # guarantee a full-dimensional hull: add a simplex around the centroid
        c = P.mean(axis=0)
        S = np.vstack([np.zeros(d), np.eye(d)]) * draw(st.floats(0.5, 2.0)) + np.round(c, 3) - 0.3
        if nonneg:
            S = np.maximum(S, 0.0)
        P = np.vstack([P, S])
    return dict(P=(P + 0.0).tolist(), kind=kind)


def _hull(P):
    from scipy.spatial import ConvexHull

    return ConvexHull(P)


# ------------------------------------------------------------------------------------------------
# (a) nearest point


@st.composite
def nearest_case(draw):
    c = draw(cloud())
    P = np.asarray(c["P"])
    k, d = P.shape
    nq = draw(st.integers(1, 5))
    W = np.asarray(draw(gens.array((nq, k), 0.0, 1.0, styles=("raw", "sparse")))).reshape(nq, k)
    kinds = draw(st.lists(st.sampled_from(["inside", "outside", "outside", "vertex", "far"]), min_size=nq, max_size=nq))
    cen = P.mean(axis=0)
    B = []
    for w, kd in zip(W, kinds):
        w = w if w.sum() > 0 else np.ones(k)
        q = (w / w.sum()) @ P
        if kd == "outside":
            q = cen + (q - cen) * draw(st.floats(1.2, 4.0)) + np.asarray(draw(gens.array((d,), -2.0, 2.0, styles=("raw",))))
        elif kd == "far":
            q = cen + np.asarray(draw(gens.array((d,), -50.0, 50.0, styles=("raw", "int"))))
        elif kd == "vertex":
            q = P[int(np.argmax(w))]
        B.append(q.tolist())
    c.update(B=B, kinds=kinds)
    return c


def body_nearest(case):
    dreye = _dreye()
    P = np.asarray(case["P"], dtype=float)
    B = np.asarray(case["B"], dtype=float)
    hull = _hull(P)
    eq = hull.equations
    B0, eq0 = B.copy(), eq.copy()
    with calling("proj_B_to_hull"):
        Y = np.asarray(dreye.proj_B_to_hull(B, eq))
    check(np.array_equal(B, B0) and np.array_equal(eq, eq0), "nearest:input-modified", "inputs modified")
    check(Y.shape == B.shape, "nearest:shape", f"{Y.shape}")
    span = float(np.max(P.max(0) - P.min(0)))
    V = P[hull.vertices]
    labs = [f"d{P.shape[1]}", case["kind"]]
    for b, y, kd in zip(B, Y, case["kinds"]):
        viol = float(np.max(eq[:, :-1] @ y + eq[:, -1]))
        check(viol <= 1e-8 * span, "nearest:outside-hull", f"projection violates a facet inequality by {viol:.3g}")
        inside = float(np.max(eq[:, :-1] @ b + eq[:, -1])) <= 0
        if inside:
            check(np.max(np.abs(y - b)) <= 1e-9 * span, "nearest:inside-moved", f"point inside the hull moved by {np.max(np.abs(y - b)):.3g}")
            labs.append("inside")
        else:
            # variational inequality: y is the nearest point iff (b - y).(v - y) <= 0 for every vertex v
            vi = float(np.max((V - y) @ (b - y)))
            scale = float(np.linalg.norm(b - y)) * span + 1e-300
            check(vi <= 1e-7 * scale + 1e-12, "nearest:not-nearest",
                  f"returned point is not the nearest point of the hull: (b-y).(v-y) = {vi:.3g} > 0 for some vertex (|b-y| = {np.linalg.norm(b - y):.3g})",
                  observed=dict(b=b.tolist(), y=y.tolist()))
            labs.append("nt:projection-moves-point")
    if case["kind"] == "lattice":
        labs.append("nt:lattice")
    return labs


# ------------------------------------------------------------------------------------------------
# (b) boundary hit


@st.composite
def hit_case(draw):
    c = draw(cloud())
    P = np.asarray(c["P"])
    k, d = P.shape
    # recentre: origin strictly inside (a strictly positive convex combination of all points)
    w = np.asarray(draw(gens.array((k,), 0.2, 1.0, styles=("raw",))))
    P = P - (w / w.sum()) @ P
    nq = draw(st.integers(1, 5))
    B = draw(gens.array((nq, d), -3.0, 3.0, styles=("raw", "int")))
    c.update(P=P.tolist(), B=B)
    return c


def body_hit(case):
    dreye = _dreye()
    P = np.asarray(case["P"], dtype=float)
    B = np.asarray(case["B"], dtype=float)
    B = B[np.linalg.norm(B, axis=1) > 1e-3]
    if B.shape[0] == 0:
        return ["zero-vectors-only"]
    hull = _hull(P)
    eq = hull.equations
    if float(np.max(eq[:, -1])) > -1e-6 * float(np.max(P.max(0) - P.min(0))):
        return ["origin-not-interior-skipped"]
    with calling("alpha_for_B_with_P / B_with_P"):
        with np.errstate(all="ignore"):
            alpha = np.asarray(dreye.alpha_for_B_with_P(B, eq))
            H = np.asarray(dreye.B_with_P(B, eq))
    check(alpha.shape == (B.shape[0],) and H.shape == B.shape, "hit:shape", f"{alpha.shape} {H.shape}")
    check(np.all(np.isfinite(alpha)) and np.all(alpha > 0), "hit:alpha-positive", f"alpha = {alpha.tolist()}")
    span = float(np.max(P.max(0) - P.min(0)))
    worst = np.max(H @ eq[:, :-1].T + eq[:, -1], axis=1)
    check(np.all(np.abs(worst) <= 1e-9 * span), "hit:not-on-boundary", f"alpha*b is at signed facet distance {worst.tolist()} from the boundary (should be 0)",
          observed=dict(alpha=alpha.tolist()))
    check(np.all(np.abs(H - alpha[:, None] * B) <= 1e-12 * (np.abs(H) + 1e-300) + 1e-300), "hit:B_with_P", "B_with_P != alpha * B")
    # independent: LP  max t  s.t.  t*b in hull(P)
    for b, a in zip(B[:2], alpha[:2]):
        k = P.shape[0]
        c = np.zeros(k + 1)
        c[-1] = -1.0
        A_eq = np.vstack([np.hstack([P.T, -b[:, None]]), np.hstack([np.ones((1, k)), np.zeros((1, 1))])])
        r = _linprog(c, A_eq=A_eq, b_eq=np.concatenate([np.zeros(P.shape[1]), [1.0]]), bounds=[(0, None)] * (k + 1))
        if r.status == 0:
            check(abs(r.x[-1] - a) <= 1e-7 * max(1.0, a), "hit:alpha-vs-lp", f"alpha {a!r} but the LP boundary multiple is {r.x[-1]!r}")
    return [f"d{P.shape[1]}", case["kind"], "nt:boundary-hit"]


# ------------------------------------------------------------------------------------------------
# (c) slice with the plane  sum = c


@st.composite
def slice_case(draw):
    c = draw(cloud(nonneg=True, allow_few=True))
    P = np.maximum(np.asarray(c["P"]), 0.0)
    sums = P.sum(axis=1)
    lo, hi = float(sums.min()), float(sums.max())
    mode = draw(st.sampled_from(["between", "between", "at-vertex"]))
    if hi - lo < 1e-6:
        cc = None
    elif mode == "at-vertex":
        inner = sorted(set(float(s) for s in sums if lo < s < hi))
        cc = draw(st.sampled_from(inner)) if inner else lo + 0.5 * (hi - lo)
    else:
        cc = lo + draw(st.floats(0.02, 0.98)) * (hi - lo)
    dirs = draw(gens.array((12, P.shape[1]), -1.0, 1.0, styles=("raw",)))
    c.update(P=P.tolist(), c=cc, mode=mode, dirs=dirs)
    return c


def slice_support(P, c, u):
    """max u.p over hull(P) intersected with sum(p) = c."""
    k, d = P.shape
    A_eq = np.vstack([np.ones((1, k)), (P.sum(axis=1))[None, :]])
    r = _linprog(-(P @ u), A_eq=A_eq, b_eq=[1.0, c], bounds=[(0, None)] * k)
    if r.status != 0:
        return None
    return float(-r.fun)


def body_slice(case):
    dreye = _dreye()
    P = np.asarray(case["P"], dtype=float)
    c = case["c"]
    if c is None or c <= 0:
        return ["degenerate-sums-skipped"]
    P0 = P.copy()
    with calling("proj_P_to_simplex"):
        Q = np.asarray(dreye.proj_P_to_simplex(P, c))
    check(np.array_equal(P, P0), "slice:input-modified", "input modified")
    check(Q.ndim == 2 and Q.shape[1] == P.shape[1] and Q.shape[0] >= 1, "slice:shape", f"{Q.shape}")
    span = float(np.max(P.max(0) - P.min(0))) or 1.0
    check(np.all(np.abs(Q.sum(axis=1) - c) <= 1e-9 * max(1.0, abs(c))), "slice:not-on-plane", f"returned points sum to {Q.sum(axis=1)[:4].tolist()} instead of {c}")
    for q in Q[:6]:
        dd, _ = hull_dist(P, q)
        check(dd <= 1e-6 * span, "slice:point-outside-hull", f"a returned point is at distance {dd:.3g} from the hull of the cloud")
    # support functions: hull(Q) == hull(P) cap plane
    d = P.shape[1]
    dirs = [u / np.linalg.norm(u) for u in np.asarray(case["dirs"], dtype=float) if np.linalg.norm(u) > 1e-3] + list(np.eye(d)) + list(-np.eye(d))
    for u in dirs:
        s_exact = slice_support(P, c, u)
        if s_exact is None:
            continue
        s_got = float(np.max(Q @ u))
        check(s_got <= s_exact + 1e-6 * span * np.linalg.norm(u), "slice:too-large", f"returned set exceeds the exact slice in direction {u.tolist()}: {s_got} > {s_exact}")
        check(s_got >= s_exact - 1e-6 * span * np.linalg.norm(u), "slice:too-small",
              f"returned set misses part of the exact slice in direction {np.round(u, 3).tolist()}: support {s_got:.9g} < {s_exact:.9g}",
              observed=dict(c=c, n_returned=int(Q.shape[0])))
    labs = [f"d{d}", case["kind"], case["mode"]]
    if case["kind"] in ("lattice", "few") or case["mode"] == "at-vertex":
        labs.append("nt:lattice-few-or-vertex")
    else:
        labs.append("nt:slice")
    return labs


RULE = (
    "Hypothesis-generated point clouds in 2-5 dimensions: random, lattice-like (integer grids with many coplanar points), and - for the slice - fewer "
    "points than dimensions; query points inside / outside / far / at vertices; plane constants strictly between the smallest and largest "
    "coordinate sum, also exactly at a vertex's sum. Oracles: facet inequalities + variational inequality against all hull vertices (nearest "
    "point), facet equations and an LP for the largest multiple inside the hull (boundary hit), and for the slice the plane equation, a "
    "membership LP and equality of support functions in 12 random directions plus +-axes with the LP optimum over hull(P) cap plane. "
    "Non-trivial = the projection moves the point, a boundary hit, a slice (lattice / few points / through a vertex flagged separately)."
)

PROP = Prop(
    pid="C17",
    title="Hull projections return the nearest point, the boundary hit and the exact slice",
    rule=RULE,
    assumptions=["scipy ConvexHull facet equations describe the hull given to the functions under test", "HiGHS LP optima accurate to 1e-9"],
    subs=[
        Sub("nearest_point", nearest_case(), body_nearest, quick=500, thorough=30000, quick_shards=4, min_nt_share=0.3),
        Sub("boundary_hit", hit_case(), body_hit, quick=500, thorough=30000, quick_shards=4, min_nt_share=0.3),
        Sub("simplex_slice", slice_case(), body_slice, quick=500, thorough=30000, quick_shards=4, min_nt_share=0.3),
    ],
)
