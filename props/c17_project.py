"""C17 — hull projections return the nearest point, the boundary hit and the exact slice."""
from __future__ import annotations

import numpy as np
from hypothesis import strategies as st

from vlib import gens
from vlib.core import Prop, Sub, Violation, calling, check
from vlib.oracles import _linprog, hull_dist


def _dreye():
    import dreye
    return dreye


@st.composite
def cloud(draw, dmin=2, dmax=5, nonneg=False, allow_few=False):
    d = draw(st.integers(dmin, dmax))
    kind = draw(st.sampled_from(["random", "random", "lattice", "few", "flat"] if allow_few else ["random", "random", "lattice"]))
    if kind == "few":
        k = draw(st.integers(2, d))
    else:
        k = draw(st.integers(d + 1, d + 9))
    lo = 0.0 if nonneg else -5.0
    if kind == "flat":
        # more points than dimensions, all in an r-dimensional affine subspace (r < d), some of its extents thin (down to 1e-6
        # of the largest) but unambiguous: convex combinations of r + 1 anchors v0 + t_j u_j
        r = draw(st.integers(1, d - 1))
        if draw(st.booleans()):
            k = draw(st.integers(10 * d, 12 * d))          # many points: other numerical paths in the dimension estimate of the library
        v0 = np.asarray(draw(gens.array((d,), 0.5, 3.0, styles=("raw",))))
        U = np.asarray(draw(gens.array((r, d), 0.0, 2.0, styles=("raw", "sparse")))).reshape(r, d) + np.eye(d)[:r] * 0.5
        t = np.asarray([draw(st.sampled_from([1.0, 1.0, 1e-1, 1e-2, 1e-3, 1e-4, 1e-5, 1e-6])) for _ in range(r)])
        V = np.vstack([v0, v0 + t[:, None] * U])
        W = np.asarray(draw(gens.array((k, r + 1), 0.0, 1.0, styles=("raw", "sparse")))).reshape(k, r + 1) + 1e-3
        P = np.vstack([V, (W / W.sum(axis=1, keepdims=True)) @ V])
        return dict(P=(P + 0.0).tolist(), kind=kind)
    if kind == "lattice":
        P = np.asarray(draw(gens.array((k + 4, d), 0.0, 3.0, styles=("int100",))), dtype=float).reshape(k + 4, d)
        if not nonneg:
            P = P - 1.0
    else:
        # coordinates are exactly zero or at least 1e-6 of the cloud's size: clouds that are flat "up to 1e-80" are not geometry
        P = np.asarray(draw(gens.array((k, d), lo, 5.0, styles=("raw",), tiny=1e-5)), dtype=float).reshape(k, d)
    if kind != "few":
        # guarantee a full-dimensional hull: add a simplex around the centroid
        c = P.mean(axis=0)
        S = np.vstack([np.zeros(d), np.eye(d)]) * draw(st.floats(0.5, 2.0)) + np.round(c, 3) - 0.3
        if nonneg:
            S = np.maximum(S, 0.0)
        P = np.vstack([P, S])
    return dict(P=(P + 0.0).tolist(), kind=kind)


def _hull(P):
    from scipy.spatial import ConvexHull

    return ConvexHull(P)


# ------------------------------------------------------------------------------------------------
# (a) nearest point


@st.composite
def nearest_case(draw):
    c = draw(cloud())
    P = np.asarray(c["P"])
    k, d = P.shape
    nq = draw(st.integers(1, 5))
    W = np.asarray(draw(gens.array((nq, k), 0.0, 1.0, styles=("raw", "sparse")))).reshape(nq, k)
    kinds = draw(st.lists(st.sampled_from(["inside", "outside", "outside", "vertex", "far"]), min_size=nq, max_size=nq))
    cen = P.mean(axis=0)
    B = []
    for w, kd in zip(W, kinds):
        w = w if w.sum() > 0 else np.ones(k)
        q = (w / w.sum()) @ P
        if kd == "outside":
            q = cen + (q - cen) * draw(st.floats(1.2, 4.0)) + np.asarray(draw(gens.array((d,), -2.0, 2.0, styles=("raw",))))
        elif kd == "far":
            q = cen + np.asarray(draw(gens.array((d,), -50.0, 50.0, styles=("raw", "int"))))
        elif kd == "vertex":
            q = P[int(np.argmax(w))]
        B.append(q.tolist())
    c.update(B=B, kinds=kinds)
    return c


def body_nearest(case):
    dreye = _dreye()
    P = np.asarray(case["P"], dtype=float)
    B = np.asarray(case["B"], dtype=float)
    hull = _hull(P)
    eq = hull.equations
    B0, eq0 = B.copy(), eq.copy()
    ro = int(abs(float(B.sum())) * 1e6) % 3 == 0
    if ro:
        # read-only arrays (a broadcast view, a memory map, a pandas copy-on-write block): inputs are only read
        eq = eq.copy()
        B.setflags(write=False)
        eq.setflags(write=False)
    with calling("proj_B_to_hull" + (" (read-only inputs)" if ro else "")):
        Y = np.asarray(dreye.proj_B_to_hull(B, eq))
    check(np.array_equal(B, B0) and np.array_equal(eq, eq0), "nearest:input-modified", "inputs modified")
    check(Y.shape == B.shape, "nearest:shape", f"{Y.shape}")
    span = float(np.max(P.max(0) - P.min(0)))
    V = P[hull.vertices]
    labs = [f"d{P.shape[1]}", case["kind"]]
    for b, y, kd in zip(B, Y, case["kinds"]):
        viol = float(np.max(eq[:, :-1] @ y + eq[:, -1]))
        check(viol <= 1e-8 * span, "nearest:outside-hull", f"projection violates a facet inequality by {viol:.3g}")
        inside = float(np.max(eq[:, :-1] @ b + eq[:, -1])) <= 0
        if inside:
            check(np.max(np.abs(y - b)) <= 1e-9 * span, "nearest:inside-moved", f"point inside the hull moved by {np.max(np.abs(y - b)):.3g}")
            labs.append("inside")
        else:
            # variational inequality: y is the nearest point iff (b - y).(v - y) <= 0 for every vertex v
            vi = float(np.max((V - y) @ (b - y)))
            scale = float(np.linalg.norm(b - y)) * span + 1e-300
            check(vi <= 1e-7 * scale + 1e-12, "nearest:not-nearest",
                  f"returned point is not the nearest point of the hull: (b-y).(v-y) = {vi:.3g} > 0 for some vertex (|b-y| = {np.linalg.norm(b - y):.3g})",
                  observed=dict(b=b.tolist(), y=y.tolist()))
            labs.append("nt:projection-moves-point")
    if case["kind"] == "lattice":
        labs.append("nt:lattice")
    return labs


# ------------------------------------------------------------------------------------------------
# (b) boundary hit


@st.composite
def hit_case(draw):
    c = draw(cloud())
    P = np.asarray(c["P"])
    k, d = P.shape
    # recentre: origin strictly inside (a strictly positive convex combination of all points)
    w = np.asarray(draw(gens.array((k,), 0.2, 1.0, styles=("raw",))))
    P = P - (w / w.sum()) @ P
    nq = draw(st.integers(1, 5))
    B = draw(gens.array((nq, d), -3.0, 3.0, styles=("raw", "int")))
    # length of the query vectors and absolute size of the cloud: the boundary multiple is alpha(s b) = alpha(b) / s for any s > 0
    c.update(P=P.tolist(), B=B, bscale=draw(st.sampled_from([1.0, 1.0, 1e-3, 1e-6, 1e-9, 1e-12, 1e3, 1e6])),
             pscale=draw(st.sampled_from([1.0, 1.0, 1e-6, 1e-3, 1e3])))
    return c


def body_hit(case):
    dreye = _dreye()
    P = np.asarray(case["P"], dtype=float)
    B = np.asarray(case["B"], dtype=float)
    B = B[np.linalg.norm(B, axis=1) > 1e-3]
    if B.shape[0] == 0:
        return ["zero-vectors-only"]
    bscale, pscale = float(case.get("bscale", 1.0)), float(case.get("pscale", 1.0))
    P = P * pscale
    hull = _hull(P)
    eq = hull.equations
    if float(np.max(eq[:, -1])) > -1e-6 * float(np.max(P.max(0) - P.min(0))):
        return ["origin-not-interior-skipped"]
    if int(abs(float(B.sum())) * 1e6) % 3 == 0:
        B = B.copy()
        eq = eq.copy()
        B.setflags(write=False)
        eq.setflags(write=False)
    with calling("alpha_for_B_with_P / B_with_P"):
        with np.errstate(all="ignore"):
            alpha = np.asarray(dreye.alpha_for_B_with_P(B, eq))
            H = np.asarray(dreye.B_with_P(B, eq))
    check(alpha.shape == (B.shape[0],) and H.shape == B.shape, "hit:shape", f"{alpha.shape} {H.shape}")
    check(np.all(np.isfinite(alpha)) and np.all(alpha > 0), "hit:alpha-positive", f"alpha = {alpha.tolist()}")
    span = float(np.max(P.max(0) - P.min(0)))
    worst = np.max(H @ eq[:, :-1].T + eq[:, -1], axis=1)
    check(np.all(np.abs(worst) <= 1e-9 * span), "hit:not-on-boundary", f"alpha*b is at signed facet distance {worst.tolist()} from the boundary (should be 0)",
          observed=dict(alpha=alpha.tolist()))
    check(np.all(np.abs(H - alpha[:, None] * B) <= 1e-12 * (np.abs(H) + 1e-300) + 1e-300), "hit:B_with_P", "B_with_P != alpha * B")
    # "the array of vectors" may be one vector or carry leading batch axes (the code reduces over the last, facet, axis and
    # multiplies through `[..., None]`): every form gives the numbers of the (n, d) call (added after seeded change S-C17-11)
    with calling("alpha_for_B_with_P / B_with_P (single vector, stacked vectors)"):
        with np.errstate(all="ignore"):
            a_one = np.asarray(dreye.alpha_for_B_with_P(B[0], eq))
            H_one = np.asarray(dreye.B_with_P(B[0], eq))
            Bst = np.stack([B, B[::-1]])
            a_st = np.asarray(dreye.alpha_for_B_with_P(Bst, eq))
            H_st = np.asarray(dreye.B_with_P(Bst, eq))
    check(a_one.shape == () and H_one.shape == B[0].shape, "hit:shape", f"single vector: {a_one.shape} {H_one.shape}")
    close = lambda u, v: bool(np.all(np.abs(np.asarray(u) - np.asarray(v)) <= 1e-12 * np.abs(np.asarray(v))))   # gemv / gemm differ by ulps
    check(close(a_one, alpha[0]) and close(H_one, H[0]), "hit:single-vector", f"alpha of one vector {a_one!r} != its value inside the array {alpha[0]!r}")
    check(a_st.shape == Bst.shape[:-1] and H_st.shape == Bst.shape, "hit:shape", f"stacked vectors {Bst.shape}: {a_st.shape} {H_st.shape}")
    check(close(a_st[0], alpha) and close(a_st[1], alpha[::-1]) and close(H_st[0], H), "hit:stacked-vectors",
          f"alpha of stacked vectors {a_st.tolist()} != alpha per vector {alpha.tolist()}")
    # independent: LP  max t  s.t.  t*b in hull(P)
    if bscale != 1.0:
        with calling("alpha_for_B_with_P / B_with_P (rescaled vectors)"):
            with np.errstate(all="ignore"):
                alpha_s = np.asarray(dreye.alpha_for_B_with_P(B * bscale, eq))
                H_s = np.asarray(dreye.B_with_P(B * bscale, eq))
        check(np.all(np.isfinite(alpha_s)) and np.all(np.abs(alpha_s * bscale - alpha) <= 1e-9 * alpha), "hit:not-scale-covariant",
              f"alpha(s b) * s = {(alpha_s * bscale).tolist()} but alpha(b) = {alpha.tolist()} (s = {bscale})")
        check(np.all(np.abs(H_s - H) <= 1e-9 * span), "hit:not-scale-covariant", f"B_with_P(s b) differs from B_with_P(b) for s = {bscale}")
    for b, a in (zip(B[:2], alpha[:2]) if pscale == 1.0 else ()):       # the LP's absolute tolerances assume a cloud of order 1
        k = P.shape[0]
        c = np.zeros(k + 1)
        c[-1] = -1.0
        A_eq = np.vstack([np.hstack([P.T, -b[:, None]]), np.hstack([np.ones((1, k)), np.zeros((1, 1))])])
        r = _linprog(c, A_eq=A_eq, b_eq=np.concatenate([np.zeros(P.shape[1]), [1.0]]), bounds=[(0, None)] * (k + 1))
        if r.status == 0:
            check(abs(r.x[-1] - a) <= 1e-7 * max(1.0, a), "hit:alpha-vs-lp", f"alpha {a!r} but the LP boundary multiple is {r.x[-1]!r}")
    return [f"d{P.shape[1]}", case["kind"], "nt:boundary-hit", f"bscale={bscale:g}", f"pscale={pscale:g}"]


# ------------------------------------------------------------------------------------------------
# (c) slice with the plane  sum = c


@st.composite
def slice_case(draw):
    c = draw(cloud(nonneg=True, allow_few=True))
    P = np.maximum(np.asarray(c["P"]), 0.0)
    sums = P.sum(axis=1)
    lo, hi = float(sums.min()), float(sums.max())
    mode = draw(st.sampled_from(["between", "between", "at-vertex", "tied-vertices"]))
    if hi - lo < 1e-6:
        cc = None
    elif mode == "tied-vertices":
        # several vertices whose coordinate sums agree up to rounding (cyclic shifts of one row, optionally rescaled by 3 and back):
        # the plane through them contains hull edges, and which side of it each end falls on is decided by the last bit
        inner = [i for i, s in enumerate(sums) if lo < s < hi]
        i = draw(st.sampled_from(inner)) if inner else int(np.argmax(sums))
        base = P[i] + np.asarray(draw(gens.array((P.shape[1],), 0.0, 1.0, styles=("raw",)))) * 0.3
        extra = []
        if draw(st.booleans()):
            # make the tied rows hull vertices joined by hull edges: one dominant coordinate a > any pair sum of the other rows,
            # plus one row above the plane whose pair sums stay below a
            a = 2.5 * max(float(P.max()), 1e-3)
            base = base * (0.3 / max(float(P.max()), 1e-3)) * a * 0.1 + a * np.eye(P.shape[1])[0]
            extra = [np.full(P.shape[1], (0.4 if P.shape[1] >= 3 else 0.7) * a)]
        rows = [np.roll(base, j) for j in range(P.shape[1])]
        # transfers between two coordinates keep the sum only up to rounding (x_i + t and x_j - t round independently)
        for r in list(rows):
            j0 = int(np.argmax(r))
            for j1 in range(P.shape[1]):
                if j1 != j0:
                    t_ = float(r[j0]) * draw(st.floats(0.1, 0.9))
                    q = r.copy()
                    q[j0], q[j1] = q[j0] - t_, q[j1] + t_
                    rows.append(q)
        rows = rows[:3 * P.shape[1] + 2]
        for r in rows[1:]:
            # last-bit nudges: sums one or two units in the last place below and above each other
            j0 = int(np.argmax(r))
            for _ in range(abs(k_ := draw(st.integers(-2, 2)))):
                r[j0] = np.nextafter(r[j0], np.inf if k_ > 0 else 0.0)
        if draw(st.booleans()):
            rows += [np.roll(base, j) * 3.0 / 3.0 + 0.0 for j in range(1, P.shape[1])]
        P = np.vstack([P] + rows + extra)
        sums = P.sum(axis=1)
        lo, hi = float(sums.min()), float(sums.max())
        tied = sorted(set(float(np.sum(r)) for r in rows))
        cc = tied[draw(st.integers(0, max(0, len(tied) - 2)))]          # a tied sum with at least one tied row above it (when they differ)
        if not (lo < cc < hi):
            cc = lo + 0.5 * (hi - lo) if hi - lo >= 1e-6 else None
    elif mode == "at-vertex":
        inner = sorted(set(float(s) for s in sums if lo < s < hi))
        cc = draw(st.sampled_from(inner)) if inner else lo + 0.5 * (hi - lo)
    else:
        cc = lo + draw(st.floats(0.02, 0.98)) * (hi - lo)
    dirs = draw(gens.array((12, P.shape[1]), -1.0, 1.0, styles=("raw",)))
    c.update(P=P.tolist(), c=cc, mode=mode, dirs=dirs)
    return c


def slice_support(P, c, u, c_hi=None):
    """max u.p over hull(P) intersected with sum(p) = c (or with c <= sum(p) <= c_hi)."""
    from scipy.optimize import linprog
    k, d = P.shape
    sums = P.sum(axis=1)
    opts = dict(primal_feasibility_tolerance=1e-10, dual_feasibility_tolerance=1e-10)
    if c_hi is None:
        r = linprog(-(P @ u), A_eq=np.vstack([np.ones((1, k)), sums[None, :]]), b_eq=[1.0, c], bounds=[(0, None)] * k, method="highs", options=opts)
    else:
        r = linprog(-(P @ u), A_eq=np.ones((1, k)), b_eq=[1.0], A_ub=np.vstack([sums[None, :], -sums[None, :]]), b_ub=[c_hi, -c],
                    bounds=[(0, None)] * k, method="highs", options=opts)
    if r.status != 0:
        return None
    return float(-r.fun)


def slice_candidates(P, c):
    """Points whose convex hull is hull(P) cap {sum = c}: the rows on the plane and the crossings of ALL segments between a row
    below and a row above (a superset of the edge crossings that lies inside the slice).  t is computed from the two sums, so
    0 < t < 1 whenever s_below < c < s_above in floating point."""
    sums = P.sum(axis=1)
    below, above, on = P[sums < c], P[sums > c], P[sums == c]
    sb, sa = sums[sums < c], sums[sums > c]
    out = [on]
    if len(below) and len(above):
        t = (c - sb)[:, None] / (sa[None, :] - sb[:, None])
        out.append((below[:, None, :] + t[:, :, None] * (above[None, :, :] - below[:, None, :])).reshape(-1, P.shape[1]))
    return np.vstack(out)


def slice_support_band(P, c, dirs, tau):
    """(lower, upper) envelopes, per direction, of the support of hull(P) cap {sum = c'} over |c' - c| <= tau, or None for the lower one.
    The slice is discontinuous in c when rows lie within rounding of the plane (the side they are on is decided by the last bit
    of a float sum).  The support is concave and piecewise linear in c' with break points at the row sums: its minimum over the
    band is attained at an end of the band, its maximum at an end or at a row sum inside the band.  When no row lies clearly
    (10 tau) beyond the plane on one of the two sides the lower envelope is not defined (the band leaves the cloud) -> None."""
    sums = P.sum(axis=1)
    U = np.asarray(dirs, dtype=float)
    lo, hi = c - tau, c + tau
    pts = [lo, hi] + [float(s) for s in sums if lo < s < hi]
    vals = []
    for cc in pts:
        cand = slice_candidates(P, cc)
        vals.append(np.max(cand @ U.T, axis=0) if len(cand) else np.full(len(U), -np.inf))
    vals = np.asarray(vals)
    upper = vals.max(axis=0)
    well_posed = float(sums.min()) < c - 10 * tau and float(sums.max()) > c + 10 * tau
    lower = np.minimum(vals[0], vals[1]) if well_posed else None
    return lower, upper


def body_slice(case):
    dreye = _dreye()
    P = np.asarray(case["P"], dtype=float)
    c = case["c"]
    if c is None or c <= 0:
        return ["degenerate-sums-skipped"]
    if case["kind"] == "lattice" and int(abs(float(P.sum())) * 100) % 3 == 0:
        # a cloud of whole numbers handed over as an integer-typed array (counts): the crossings are fractional all the same
        Pi = np.round(P)
        si = Pi.sum(axis=1)
        if si.min() < c < si.max():
            P = Pi.astype(np.int64)
    P0 = P.copy()
    with calling(f"proj_P_to_simplex ({P.dtype})"):
        Q = np.asarray(dreye.proj_P_to_simplex(P, c), dtype=float)
    P = np.asarray(P, dtype=float)
    check(np.array_equal(P, P0), "slice:input-modified", "input modified")
    check(Q.ndim == 2 and Q.shape[1] == P.shape[1] and Q.shape[0] >= 1, "slice:shape", f"{Q.shape}")
    span = float(np.max(P.max(0) - P.min(0))) or 1.0
    check(np.all(np.abs(Q.sum(axis=1) - c) <= 1e-9 * max(1.0, abs(c))), "slice:not-on-plane", f"returned points sum to {Q.sum(axis=1)[:4].tolist()} instead of {c}")
    for q in Q[:6]:
        dd, _ = hull_dist(P, q)
        check(dd <= 1e-6 * span, "slice:point-outside-hull", f"a returned point is at distance {dd:.3g} from the hull of the cloud")
    # support functions: hull(Q) == hull(P) cap plane
    d = P.shape[1]
    dirs = [u / np.linalg.norm(u) for u in np.asarray(case["dirs"], dtype=float) if np.linalg.norm(u) > 1e-3] + list(np.eye(d)) + list(-np.eye(d))
    tau = 1e-9 * max(1.0, abs(c))
    lower, upper = slice_support_band(P, c, dirs, tau)
    got = np.max(Q @ np.asarray(dirs).T, axis=0)
    for j, u in enumerate(dirs):
        check(got[j] <= upper[j] + 1e-6 * span, "slice:too-large", f"returned set exceeds the exact slice in direction {u.tolist()}: {got[j]} > {upper[j]}")
        if lower is not None:
            check(got[j] >= lower[j] - 1e-6 * span, "slice:too-small",
                  f"returned set misses part of the exact slice in direction {np.round(u, 3).tolist()}: support {got[j]:.9g} < {lower[j]:.9g}",
                  observed=dict(c=c, n_returned=int(Q.shape[0])))
    labs = [f"d{d}", case["kind"], case["mode"]] + ([] if lower is not None else ["no-row-clearly-beyond-the-plane:upper-envelope-only"])
    if case["kind"] in ("lattice", "few", "flat") or case["mode"] in ("at-vertex", "tied-vertices"):
        labs.append("nt:lattice-few-or-vertex")
    else:
        labs.append("nt:slice")
    return labs


RULE = (
    "Hypothesis-generated point clouds in 2-5 dimensions: random, lattice-like (integer grids with many coplanar points), and - for the slice - fewer "
    "points than dimensions; query points inside / outside / far / at vertices; plane constants strictly between the smallest and largest "
    "coordinate sum, also exactly at a vertex's sum. Oracles: facet inequalities + variational inequality against all hull vertices (nearest "
    "point), facet equations and an LP for the largest multiple inside the hull (boundary hit), and for the slice the plane equation, a "
    "membership LP and equality of support functions in 12 random directions plus +-axes with the LP optimum over hull(P) cap plane. "
    "Non-trivial = the projection moves the point, a boundary hit, a slice (lattice / few points / through a vertex flagged separately)."
    " Slice: also flat clouds (more points than dimensions in an r < d dimensional affine subspace, thin extents down to 1e-3) and tied vertices (several rows whose sums agree up to the last bit, c equal to one of them); oracle = exact enumeration (rows on the plane + crossings of all below/above pairs) over the band |c1-c| <= 1e-9 (upper envelope always, lower envelope when rows lie clearly beyond the plane on both sides). Boundary hit: vector lengths 1e-12..1e6 and cloud sizes 1e-6..1e3, alpha(s b) = alpha(b)/s."
    " Flat clouds have extents down to 1e-6 of the largest."
)

# ------------------------------------------------------------------------------------------------
# (d) the slice of a very large cloud (tens of thousands of points); data from a drawn numpy seed


@st.composite
def large_slice_case(draw):
    return dict(n=draw(st.sampled_from([20000, 47011, 60000, 70001])), d=draw(st.sampled_from([2, 3, 3])), data_seed=draw(st.integers(0, 2 ** 31 - 1)),
                t=draw(st.floats(0.15, 0.85)), shape=draw(st.sampled_from(["cube", "ball"])))


def body_large_slice(case):
    dreye = _dreye()
    rng = np.random.default_rng(case["data_seed"])
    n, d = case["n"], case["d"]
    P = rng.uniform(0.0, 1.0, (n, d))
    if case["shape"] == "ball":
        G = rng.normal(size=(n, d))
        P = 0.5 + 0.5 * G / np.linalg.norm(G, axis=1, keepdims=True) * rng.uniform(0.0, 1.0, (n, 1)) ** (1.0 / d)
        P = np.clip(P, 0.0, None)
    sums = P.sum(axis=1)
    c = float(sums.min() + case["t"] * (sums.max() - sums.min()))
    with calling(f"proj_P_to_simplex ({n} points in {d}-D)"):
        Q = np.asarray(dreye.proj_P_to_simplex(P, c))
    check(Q.ndim == 2 and Q.shape[1] == d and Q.shape[0] >= 1, "large-slice:shape", f"{Q.shape}")
    check(np.all(np.abs(Q.sum(axis=1) - c) <= 1e-9 * max(1.0, c)), "large-slice:not-on-plane", f"a returned point sums to {float(Q.sum(axis=1)[np.argmax(np.abs(Q.sum(axis=1) - c))])!r} instead of {c!r}")
    hull = _hull(P)
    worst = float(np.max(Q @ hull.equations[:, :-1].T + hull.equations[:, -1]))
    check(worst <= 1e-9, "large-slice:point-outside-hull", f"a returned point violates a facet inequality of the cloud's hull by {worst:.3g}")
    V = P[hull.vertices]                      # the hull of the cloud is the hull of its vertices: exact slice by enumeration over them
    dirs = np.vstack([np.eye(d), -np.eye(d), rng.normal(size=(12, d))])
    dirs = dirs / np.linalg.norm(dirs, axis=1, keepdims=True)
    lower, upper = slice_support_band(V, c, dirs, 1e-9 * max(1.0, c))
    got = np.max(Q @ dirs.T, axis=0)
    check(np.all(got <= upper + 1e-7), "large-slice:too-large", f"returned set exceeds the exact slice: {got.tolist()} vs {upper.tolist()}")
    if lower is not None:
        check(np.all(got >= lower - 1e-7), "large-slice:too-small", f"returned set misses part of the exact slice: supports {got.tolist()} < {lower.tolist()}")
    return [f"n{n}", f"d{d}", case["shape"], "nt:large-cloud"]


PROP = Prop(
    pid="C17",
    title="Hull projections return the nearest point, the boundary hit and the exact slice",
    rule=RULE,
    assumptions=["scipy ConvexHull facet equations describe the hull given to the functions under test", "HiGHS LP optima accurate to 1e-9"],
    subs=[
        Sub("nearest_point", nearest_case(), body_nearest, quick=500, thorough=30000, quick_shards=4, min_nt_share=0.3),
        Sub("boundary_hit", hit_case(), body_hit, quick=500, thorough=30000, quick_shards=4, min_nt_share=0.3),
        Sub("simplex_slice", slice_case(), body_slice, quick=500, thorough=30000, quick_shards=4, min_nt_share=0.3),
        Sub("large_slice", large_slice_case(), body_large_slice, quick=12, thorough=200, quick_shards=4, thorough_shards=16, min_nt_share=0.0),
    ],
)
