"""C04 — the default fit is the global bounded weighted least-squares optimum."""
from __future__ import annotations

import numpy as np
from hypothesis import strategies as st

from vlib import gens
from vlib.core import unchanged, Prop, Sub, Violation, calling, check
from vlib.oracles import rows_sharing_a_solution, bvls, lp_dist
from vlib.systems import NOMINAL_RANGE, proportional_variant, Sys, matrix_system, target_rows

HIGH_ACC = dict(solver="CLARABEL", tol_gap_abs=1e-9, tol_gap_rel=1e-9, tol_feas=1e-9, max_iter=500)
TOL = {"default": dict(cap=2e-2, frac=1e-2), "high": dict(cap=2e-3, frac=1e-6)}


@st.composite
def weights(draw, m, nrows):
    kind = draw(st.sampled_from(["none", "none", "vector", "matrix", "matrix-repeating", "inverse"]))
    if kind == "none":
        return None
    if kind == "inverse":
        return "inverse"            # relative errors: weights 1 / target (function level)
    if kind == "vector":
        return draw(gens.array((m,), 0.3, 3.0, styles=("raw", "int")))
    if kind == "matrix-repeating" and nrows >= 2:
        # a per-sample table in which samples share weight rows (first == last, runs of equal rows): every sample is
        # still its own problem with its own row of weights (added after seeded change S-C04-11)
        k = draw(st.integers(1, min(3, nrows)))
        pool = np.asarray(draw(gens.array((k, m), 0.3, 3.0, styles=("raw", "int"))), dtype=float)
        idx = [draw(st.integers(0, k - 1)) for _ in range(nrows)]
        if draw(st.booleans()):
            idx[-1] = idx[0]
        return pool[idx].tolist()
    return draw(gens.array((nrows, m), 0.3, 3.0, styles=("raw",)))


@st.composite
def fit_case(draw, accuracy=None):
    shape = draw(st.sampled_from([None, None, "under", "exact", "over"]))
    sysd = draw(matrix_system(m=(1, 5), n=(1, 8), shape=shape, lb_kinds=("zero", "zero", "zero", "pos", "pos", "mixed-sign")))
    sysd, _prop = draw(proportional_variant(sysd, one_in=6))
    rows = draw(target_rows(sysd, ["interior", "interior", "facet", "vertex", "near_in", "near_out", "outside", "scaled_out", "below", "below", "random", "dark"], nrows=(1, 4)))
    if draw(st.integers(0, 3)) == 0:
        # a fine intensity ramp: the next target is a few 1e-6 (relative) away - another problem, not a repetition
        f = 1.0 + draw(gens.log_uniform(1e-7, 1e-5))
        rows.append(dict(rows[-1], b=(np.asarray(rows[-1]["b"], dtype=float) * f).tolist(), kind=rows[-1]["kind"] + "+ramp"))
    if draw(st.integers(0, 4)) == 0:
        # the same target again, directly after itself (patterned stimuli): with per-sample weights it is still another problem
        rows.append(dict(rows[-1], kind=rows[-1]["kind"] + "+repeat"))
    m = len(sysd["A"])
    W = draw(weights(m, len(rows)))
    if W is not None and not isinstance(W, str):
        W = np.maximum(np.asarray(W, dtype=float), 0.3).tolist()
    return dict(system=sysd, rows=rows, W=W, entry=draw(st.sampled_from(["function", "estimator"])),
                accuracy=(draw(st.sampled_from(["default", "default", "high"])) if accuracy is None else accuracy),
                layout=draw(st.sampled_from(["C", "C", "F", "strided"])), proportional=_prop,
                form=draw(st.sampled_from([None, None, None, "list"])),
                # how many targets are stacked into one problem (a performance setting only)
                batch_size=draw(st.sampled_from([None, None, None, 2, 3, "full"])))


def run_fit(sv: Sys, B, W, entry, opt):
    """returns X, B_pred through the chosen entry point."""
    if entry == "function":
        from dreye.api.optimize.lsq_linear import lsq_linear

        with calling("lsq_linear"):
            X, Bp = lsq_linear(sv.A, B, W=(None if W is None else (W if isinstance(W, str) else np.asarray(W, dtype=float))), return_pred=True, **sv.kwargs(), **opt)
        return np.asarray(X), np.asarray(Bp)
    with calling("ReceptorEstimator.fit"):
        if W is None:
            est = sv.make_estimator()
            with unchanged("fit", estimator=est):
                X, Bp = est.fit(B, **opt)
        elif np.ndim(W) == 1:
            est = sv.make_estimator(w=np.asarray(W, dtype=float))
            X, Bp = est.fit(B, **opt)
        else:
            est = sv.make_estimator()
            est.register_targets(B, W=np.asarray(W, dtype=float))
            est.fit(**opt)
            X, Bp = est.X, est.B
    return np.asarray(X), np.asarray(Bp)


def body_fit(case):
    sv = Sys(case["system"])
    B = gens.with_layout(np.array([r["b"] for r in case["rows"]], dtype=float), case.get("layout"))
    W = case["W"]
    entry = case["entry"]
    Wcall = W
    if isinstance(W, str):
        # W="inverse": weights 1 / target; needs targets clearly above zero; offered by the function only
        if np.all(B >= 0.05 * sv.extent):
            W, Wcall, entry = (1.0 / B), "inverse", "function"
        else:
            W = Wcall = None
    if W is not None and np.ndim(W) == 2 and not isinstance(Wcall, str):
        W = Wcall = gens.with_layout(W, case.get("layout"))
    acc = case["accuracy"]
    opt = dict(HIGH_ACC) if acc == "high" else {}
    if case.get("batch_size") is not None:
        opt["batch_size"] = case["batch_size"]
    tol = TOL[acc]
    B0 = B.copy()
    X, Bp = run_fit(sv, (gens.as_form(B, case["form"]) if case.get("form") else B), Wcall, entry, opt)
    if np.ndim(X) == 2 and np.shape(X)[0] == B.shape[0]:
        Wsh = np.ones_like(B) if W is None else np.broadcast_to(np.asarray(W, dtype=float), B.shape)
        opt_pred = [sv.predict(bvls(sv.Ap, sv.basep, sv.lb, sv.ub, b_, w_)[0]) for b_, w_ in zip(B, Wsh)]
        pairs = rows_sharing_a_solution(B, X, sv.lb, sv.ub, sv.Ap, scale=sv.extent, opt_pred=opt_pred)
        check(not pairs, "fit:rows-share-a-solution", f"rows {pairs} have different targets but bit-identical intensities")
    # whole-number problem (photon counts): integer-typed targets, K and baseline give the same fit as the same numbers as floats
    if sv.K_raw is None or np.ndim(sv.K_raw) < 2:
        from dreye.api.optimize.lsq_linear import lsq_linear

        Ki = None if sv.K_raw is None else np.maximum(1, np.round(np.asarray(sv.K_raw, dtype=float))).astype(np.int64)
        bi = np.int64(0) if sv.base_raw is None else np.round(np.asarray(sv.base_raw, dtype=float) / sv.extent * 10.0).astype(np.int64)
        Bi = np.round(B / sv.extent * 20.0).astype(np.int64)
        if Ki is not None:
            Ki = np.atleast_1d(Ki)                   # the function takes K as an array (a scalar as a length-one array, like Sys.K_arg)
        if np.ndim(bi) == 0:
            bi = int(bi)
        flt = lambda v: None if v is None else (float(v) if np.ndim(v) == 0 else np.asarray(v, dtype=float))
        with calling("lsq_linear (integer-typed targets, K, baseline)"):
            Xi = np.asarray(lsq_linear(sv.A, Bi, lb=sv.lb_arg(), ub=sv.ub_arg(), K=Ki, baseline=bi, **opt))
            Xf = np.asarray(lsq_linear(sv.A, Bi.astype(float), lb=sv.lb_arg(), ub=sv.ub_arg(), K=flt(Ki), baseline=flt(bi), **opt))
        rng_i = np.where(np.isfinite(sv.ub), sv.ub - sv.lb, NOMINAL_RANGE)
        check(Xi.shape == Xf.shape and np.all(np.abs(Xi - Xf) <= 1e-6 * float(np.max(rng_i))), "fit:integer-typed-problem-differs",
              f"targets {Bi.tolist()}, K {Ki}, baseline {bi} as integers give intensities {Xi.tolist()}, as floats {Xf.tolist()}")
    labs = sv.labels() + [f"entry:{entry}", f"acc:{acc}", "W:" + ("none" if W is None else ("inverse" if isinstance(Wcall, str) else ("vector" if np.ndim(W) == 1 else "matrix")))] + (["proportional-sources"] if case.get("proportional") else [])
    check(np.array_equal(B, B0), "fit:targets-modified", "fit modified the caller's target array")
    # (a) shapes
    check(X.shape == (B.shape[0], sv.n) and Bp.shape == B.shape, "fit:shape", f"X {X.shape}, B_pred {Bp.shape} for {B.shape[0]} targets, {sv.n} sources")
    check(np.all(np.isfinite(X)) and np.all(np.isfinite(Bp)), "fit:nonfinite", "non-finite result")
    # (b) bounds
    rng = np.where(np.isfinite(sv.ub), sv.ub - sv.lb, NOMINAL_RANGE)
    # "1 % of the bound range" is read as one absolute solver accuracy per system (of its largest source range): an
    # ADMM solver cannot resolve 1 % of a source whose range is 200x smaller than its neighbour's
    slack = tol["frac"] * float(np.max(rng))
    lo_ok = X >= sv.lb - slack
    hi_ok = X <= np.where(np.isfinite(sv.ub), sv.ub + slack, np.inf)
    check(np.all(lo_ok & hi_ok), "fit:bounds", f"intensities {X.tolist()} outside [{sv.lb.tolist()}, {sv.ub.tolist()}] by more than {tol['frac']} of the range",
          observed=dict(X=X.tolist()))
    # (d) prediction is the model's capture of the returned intensities
    model = sv.predict(X)
    mag = np.abs(X) @ np.abs(sv.Ap).T + np.abs(sv.basep)
    check(np.all(np.abs(Bp - model) <= 1e-9 * mag + 1e-300), "fit:prediction", f"B_pred {Bp.tolist()} != K(Ax+baseline) {model.tolist()}")
    # (c) optimality per row, (e) zero error iff in gamut
    Wm = np.ones_like(B) if W is None else np.broadcast_to(np.asarray(W, dtype=float), B.shape)
    # with batch_size > 1 several targets are stacked into one problem and the solver's accuracy (relative gap 1e-6 by default, 1e-9
    # at high accuracy) refers to the objective of the whole stack: a far out-of-gamut row (residual ~50) leaves a gap of 1e-6 * 2500,
    # i.e. an error of sqrt(gap) on an in-gamut row of the same batch (same rationale as in C05)
    stacked = case.get("batch_size") not in (None, 1)
    batch_slack = float(np.sqrt((1e-9 if acc == "high" else 1e-6) * (1.0 + float(np.sum((Wm * (Bp - B)) ** 2))))) if stacked else 0.0
    for i, (r, b) in enumerate(zip(case["rows"], B)):
        w = Wm[i]
        err = float(np.linalg.norm(w * (Bp[i] - b)))
        xo, eo = bvls(sv.Ap, sv.basep, sv.lb, sv.ub, b, w)
        capt = tol["cap"] * max(1.0, float(np.max(w))) + batch_slack
        if np.any(np.isclose(xo, sv.lb, atol=1e-9)) or np.any(np.isclose(xo, sv.ub, atol=1e-9)):
            labs.append("nt:bound-active-at-optimum")
        if r["kind"] == "below" or np.any(b < sv.basep):
            labs.append("nt:below-baseline")
        if sv.n > sv.m:
            labs.append("nt:underdetermined")
        check(err <= eo + capt, "fit:not-optimal",
              f"weighted error {err:.6g} exceeds the bounded least-squares optimum {eo:.6g} by more than {capt:.3g} (kind={r['kind']}, {'/'.join(sv.labels())})",
              observed=dict(b=b.tolist(), x=X[i].tolist(), x_opt=xo.tolist(), err=err, opt=eo))
        # a result *better* than the optimum over the box means the bounds were not really respected
        viol = float(np.max(np.maximum(sv.lb - X[i], 0) + np.maximum(X[i] - np.where(np.isfinite(sv.ub), sv.ub, np.inf), 0)))
        check(err >= eo - capt - float(np.linalg.norm(w * (np.abs(sv.Ap) @ np.full(sv.n, viol)))) - 1e-9, "fit:better-than-optimum",
              f"weighted error {err:.6g} is below the optimum {eo:.6g}: oracle/model mismatch", observed=dict(b=b.tolist()))
        d, _ = lp_dist(sv.Ap, sv.basep, sv.lb, sv.ub, b)
        if d <= 1e-9 * sv.extent:
            labs.append("in-gamut")
            check(err <= capt, "fit:in-gamut-not-reproduced", f"in-gamut target fitted with weighted error {err:.3g} > {capt:.3g}", observed=dict(b=b.tolist()))
        elif float(np.min(w)) * d > 3 * capt:
            labs.append("out-of-gamut")
            check(err >= float(np.min(w)) * d - capt, "fit:out-of-gamut-zero-error", f"target outside the gamut by {d:.3g} fitted with error {err:.3g}", observed=dict(b=b.tolist()))
    return labs


def pred_below_baseline(case):
    sv = Sys(case["system"])
    return any(np.any(np.asarray(r["b"]) < sv.basep) for r in case["rows"])


RULE = (
    "Hypothesis-generated well-scaled systems (1-5 receptors x 1-8 sources; under-, exactly- and over-determined; bounds finite or "
    "default (0, inf); K none/scalar/vector/matrix; baseline none/scalar/vector; gamut extent 1..100, bounds in [0.05,10], cond<=1e3), "
    "weights none / per receptor / per sample in [0.3,3], 1-4 constructed targets per call (interior, facet, vertex, near-boundary on "
    "both sides, outside, far outside, below baseline, random), both entry points (lsq_linear and ReceptorEstimator.fit), default "
    "settings and the high-accuracy CLARABEL pass-through. Oracle = scipy BVLS (active set) on (W A', W(b-base')) and the HiGHS "
    "distance LP. Tolerances are the ones in the property statement (2e-2 / 1% default, 2e-3 / 1e-6 high accuracy). Non-trivial = a "
    "bound active at the oracle optimum, or a target below the baseline, or an under-determined system."
    " A sixth of the under-determined systems have two sources with proportional captures; targets also as nested lists; C / Fortran / strided memory layouts."
    " Every case also fits a whole-number problem (int64 targets, K and baseline) and the same numbers as floats: equal intensities. 'dark' rows equal the baseline exactly. With batch_size > 1 the accuracy term includes sqrt(relative gap x objective of the whole call)."
    " A sixth of the systems have mixed-sign lower bounds."
)

def pred_unseen_unbounded_source_explicit_solver(case):
    """a source no receptor sees (all-zero column) without an upper bound, fitted with the explicitly passed high-accuracy solver"""
    A = np.asarray(case["system"]["A"], dtype=float)
    ub = case["system"].get("ub")
    ubv = np.full(A.shape[1], np.inf) if ub is None else np.asarray(ub, dtype=float)
    return case.get("accuracy") == "high" and bool(np.any((np.abs(A).sum(axis=0) == 0) & ~np.isfinite(ubv)))


PROP = Prop(
    pid="C04",
    title="The default fit is the global bounded weighted least-squares optimum",
    rule=RULE,
    assumptions=["scipy BVLS reaches the bounded least-squares optimum to 1e-12 on these sizes", "solver accuracies as stated in the property"],
    predicates={"below_baseline": pred_below_baseline, "unseen_unbounded_source_explicit_solver": pred_unseen_unbounded_source_explicit_solver},
    subs=[
        Sub("fit_optimal", fit_case(), body_fit, quick=1600, thorough=40000, quick_shards=8, min_nt_share=0.3),
    ],
)
