"""C02 — a registered system is the exact linear model of the receptor responses."""
from __future__ import annotations

import numpy as np
from hypothesis import strategies as st

from vlib import gens
from vlib.core import Prop, Sub, Violation, calling, check
from vlib.oracles import trapz_np
from vlib.systems import build_estimator, estimator_system


def _dom(case):
    d = case["domain"]
    return (np.asarray(d, dtype=float), None) if isinstance(d, list) else (None, float(d))


def own_capture(filters, signals, case):
    """(n_signals, n_filters) capture by the harness's own trapezoid formula, with abs-scale."""
    x, dx = _dom(case)
    F = np.asarray(filters, dtype=float)
    S = np.asarray(signals, dtype=float)
    prod = S[:, None, :] * F[None, :, :]
    return trapz_np(prod, x=x, dx=(dx if dx is not None else 1.0))


def own_relative(Q, case, scale=None):
    """K (Q + baseline) written out with explicit loops; Q (..., n_filters)."""
    Q = np.asarray(Q, dtype=float)
    m = Q.shape[-1]
    base = case.get("baseline")
    basev = np.zeros(m) if base is None else np.broadcast_to(np.asarray(base, dtype=float), (m,))
    K = case.get("K")
    T = Q + basev
    out = np.zeros_like(T)
    mag = np.zeros_like(T)
    aT = (np.abs(Q) if scale is None else scale) + np.abs(basev)
    if K is None:
        return T, aT
    K = np.asarray(K, dtype=float)
    if K.ndim == 0:
        return T * float(K), aT * abs(float(K))
    if K.ndim == 1:
        return T * K, aT * np.abs(K)
    for i in range(m):
        for j in range(m):
            out[..., i] += K[i, j] * T[..., j]
            mag[..., i] += abs(K[i, j]) * aT[..., j]
    return out, mag


def _labels(case):
    nf, ns = len(case["filters"]), len(case["sources"])
    K, base = case.get("K"), case.get("baseline")
    labs = [f"{nf}x{ns}", "K:" + ("none" if K is None else {0: "scalar", 1: "vector", 2: "matrix"}[np.ndim(K)]),
            "base:" + ("none" if base is None else {0: "scalar", 1: "vector"}[np.ndim(base)]),
            "dom:" + ("array" if isinstance(case["domain"], list) else "step")]
    nonsq = nf != ns
    rich = (K is not None and np.ndim(K) >= 1) or (base is not None and np.any(np.asarray(base) != 0))
    if nonsq and rich:
        labs.append("nt:nonsquare-with-K-or-baseline")
    return labs


@st.composite
def model_case(draw):
    c = draw(estimator_system())
    ns = len(c["sources"])
    kind = draw(st.sampled_from(["1d", "2d", "2d", "3d"]))
    shape = {"1d": (ns,), "2d": (draw(st.integers(1, 4)), ns), "3d": (draw(st.integers(1, 2)), draw(st.integers(1, 3)), ns)}[kind]
    c["X"] = draw(gens.array(shape, 0.0, 10.0))
    c["signals"] = draw(gens.array((draw(st.integers(1, 3)), len(c["filters"][0])), 0.0, 5.0))
    return c


def body_model(case):
    with calling("ReceptorEstimator + register_system"):
        est = build_estimator(case)
    F = np.asarray(case["filters"], dtype=float)
    Ssrc = np.asarray(case["sources"], dtype=float)
    nf, ns = F.shape[0], Ssrc.shape[0]
    X = np.asarray(case["X"], dtype=float)
    # (d) A is the capture matrix (n_filters, n_sources)
    Q_src, sc_src = own_capture(F, Ssrc, case)          # (ns, nf)
    A = np.asarray(est.A)
    check(A.shape == (nf, ns), "A:shape", f"A has shape {A.shape}, expected {(nf, ns)}")
    check(np.all(np.abs(A - Q_src.T) <= 1e-10 * sc_src.T + 1e-300), "A:value", "A[i,k] != capture of source k by filter i")
    # (a) system capture = capture of the physically mixed spectrum
    with calling("system_capture"):
        got = np.asarray(est.system_capture(X))
    mixed = X.reshape(-1, ns) @ Ssrc                    # (batch, nd) physically mixed spectra
    Qm, _ = own_capture(F, mixed, case)                 # (batch, nf)
    scm = np.abs(X.reshape(-1, ns)) @ sc_src            # abs scale
    exp = Qm.reshape(X.shape[:-1] + (nf,))
    check(got.shape == exp.shape, "system_capture:shape", f"{got.shape} != {exp.shape}")
    check(np.all(np.abs(got - exp) <= 1e-10 * scm.reshape(exp.shape) + 1e-300), "system_capture:value",
          f"system_capture(x)={np.ravel(got)[:3].tolist()} != capture of mixed spectrum {np.ravel(exp)[:3].tolist()}")
    # whole-number intensities (e.g. DAC steps) as an int64 array / list of ints give the captures of the same numbers as floats
    Xw = np.round(X)
    iform = ("int", "intlist")[(nf + ns) % 2]
    with calling(f"system_capture / system_relative_capture (whole-number intensities as {iform})"):
        gi, gf = np.asarray(est.system_capture(gens.as_form(Xw, iform)), dtype=float), np.asarray(est.system_capture(Xw.copy()), dtype=float)
        ri, rf = np.asarray(est.system_relative_capture(gens.as_form(Xw, iform)), dtype=float), np.asarray(est.system_relative_capture(Xw.copy()), dtype=float)
    check(gi.shape == gf.shape and np.all(np.abs(gi - gf) <= 1e-12 * (np.abs(gf) + 1e-300)) and ri.shape == rf.shape and np.all(np.abs(ri - rf) <= 1e-12 * (np.abs(rf) + 1e-300)),
          "system_capture:integer-intensities-differ", f"intensities {np.ravel(Xw)[:4].tolist()}.. as {iform}: {np.ravel(gi)[:3].tolist()}, as floats: {np.ravel(gf)[:3].tolist()}")
    # (a') the same statement when the sources live on their own wavelength grid (a shifted grid whose overlap with the filters'
    # grid is not a whole number of steps): A x is the capture of the mixed spectrum given on that grid
    nd_ = F.shape[1]
    if nd_ >= 6:
        import dreye as _dreye
        fd_ = 300.0 + np.arange(nd_) * 1.0
        if (nf + ns + nd_) % 2 == 0:
            fd_ = fd_.astype(np.int64)                  # whole-number wavelengths as an integer-typed array (np.arange(300, 300 + nd))
        sd_ = 300.0 + 0.37 + np.arange(nd_) * (1.0 + 0.013 * (nf + ns))
        with calling("register_system(domain=) / capture(domain=)"):
            est_o = _dreye.ReceptorEstimator(F, domain=fd_)
            est_o.register_system(Ssrc, domain=sd_)
            got_o = np.asarray(est_o.system_capture(X.reshape(-1, ns)), dtype=float)
            mix_o = np.asarray(est_o.capture(mixed, domain=sd_), dtype=float)
        sc_o = np.abs(X.reshape(-1, ns)) @ np.abs(np.asarray(est_o.A, dtype=float)).T + 1e-300
        check(got_o.shape == mix_o.shape and np.all(np.abs(got_o - mix_o) <= 1e-9 * sc_o), "system_capture:own-domain",
              f"sources registered on their own grid: system_capture(x) = {np.ravel(got_o)[:3].tolist()} but the capture of the mixed spectrum on that grid = {np.ravel(mix_o)[:3].tolist()}")
    # (b) relative captures = K (Q + baseline)
    with calling("system_relative_capture"):
        rel = np.asarray(est.system_relative_capture(X))
    exp_rel, mag = own_relative(exp, case, scale=scm.reshape(exp.shape))
    check(rel.shape == exp_rel.shape, "system_relative_capture:shape", f"{rel.shape} != {exp_rel.shape}")
    check(np.all(np.abs(rel - exp_rel) <= 1e-10 * mag + 1e-300), "system_relative_capture:value",
          f"{np.ravel(rel)[:3].tolist()} != K(Q+baseline) = {np.ravel(exp_rel)[:3].tolist()}")
    sig = np.asarray(case["signals"], dtype=float)
    with calling("relative_capture"):
        rel_s = np.asarray(est.relative_capture(sig))
    Qs, scs = own_capture(F, sig, case)
    exp_s, mag_s = own_relative(Qs, case, scale=scs)
    check(rel_s.shape == exp_s.shape, "relative_capture:shape", f"{rel_s.shape} != {exp_s.shape}")
    check(np.all(np.abs(rel_s - exp_s) <= 1e-10 * mag_s + 1e-300), "relative_capture:value",
          f"{np.ravel(rel_s)[:3].tolist()} != K(Q+baseline) = {np.ravel(exp_s)[:3].tolist()}")
    labs = _labels(case)
    labs.append(f"X{X.ndim}d")
    return labs


@st.composite
def adapt_case(draw):
    c = draw(estimator_system())
    nd = len(c["filters"][0])
    ns = len(c["sources"])
    c["background"] = draw(gens.array((nd,), 0.05, 5.0, styles=("raw",)))
    c["x_adapt"] = draw(gens.array((ns,), 0.05, 10.0, styles=("raw",)))
    # every filter must see something of the background / of the adapting mixture (captures must be positive)
    F = np.asarray(c["filters"], dtype=float)
    F = np.maximum(F, 1e-3)
    c["filters"] = F.tolist()
    S = np.asarray(c["sources"], dtype=float)
    c["sources"] = np.maximum(S, 1e-3).tolist()
    return c


def body_adapt(case):
    with calling("ReceptorEstimator + register_system"):
        est = build_estimator(case)
    bg = np.asarray(case["background"], dtype=float)
    with calling("register_background_adaptation"):
        est.register_background_adaptation(bg)
        r = np.asarray(est.relative_capture(bg))
    check(r.shape == (len(case["filters"]),), "background:shape", f"{r.shape}")
    check(np.all(np.abs(r - 1.0) <= 1e-12), "background:unity", f"relative capture of the adapting background = {r.tolist()}")
    # later captures use K = 1/(Q_bg + baseline)
    F = np.asarray(case["filters"], dtype=float)
    Qb, _ = own_capture(F, bg[None, :], case)
    base = case.get("baseline")
    basev = 0.0 if base is None else np.asarray(base, dtype=float)
    Kexp = 1.0 / (Qb[0] + basev)
    x = np.asarray(case["x_adapt"], dtype=float)
    with calling("system_relative_capture"):
        r2 = np.asarray(est.system_relative_capture(x))
    Qx, _ = own_capture(F, (x @ np.asarray(case["sources"], dtype=float))[None, :], case)
    exp2 = Kexp * (Qx[0] + basev)
    check(np.all(np.abs(r2 - exp2) <= 1e-9 * np.abs(exp2)), "background:K-value", f"{r2.tolist()} != {exp2.tolist()}")
    with calling("register_system_adaptation"):
        est.register_system_adaptation(x)
        r3 = np.asarray(est.system_relative_capture(x))
    check(np.all(np.abs(r3 - 1.0) <= 1e-12), "system-adaptation:unity", f"relative capture of the adapting intensities = {r3.tolist()}")
    return _labels(case) + ["nt:adapted"]


RULE = (
    "Hypothesis-generated estimators: 2-5 filters and 1-8 sources as Gaussian bumps (own formula) or random non-negative arrays on "
    "5-40 domain points (scalar step, uniform or non-uniform array), K in {none, scalar, vector, square matrix with negative "
    "off-diagonals}, baseline in {none, scalar, vector}, bounds; intensities as 1-D/2-D/3-D batches. Oracle = harness's own "
    "trapezoid of the physically mixed spectrum and K(Q+baseline) written with explicit loops (rel. 1e-10 of sum|terms|). "
    "Non-trivial = n_filters != n_sources (transposition visible) and K non-scalar or baseline != 0; adaptation cases always."
    " The own-grid comparison uses an int64 filter grid (np.arange-like) in half of the cases."
    " Whole-number intensities as int64 array / list of ints give the captures of the same numbers as floats."
)

# ------------------------------------------------------------------------------------------------
# large batches of spectra through the estimator (size-dependent code paths); data from a drawn numpy seed


@st.composite
def large_batch_case(draw):
    nd = draw(st.sampled_from([51, 101, 401]))
    nf = draw(st.integers(2, 5))
    total = draw(st.sampled_from([2 ** 20, 2 ** 22, 2 ** 24, 2 ** 25]))
    ns = total // (nf * nd) + draw(st.integers(1, 9))
    return dict(nd=nd, nf=nf, ns=int(ns), nsrc=draw(st.integers(1, 4)), data_seed=draw(st.integers(0, 2 ** 31 - 1)),
                K=draw(st.sampled_from(["none", "vector"])), baseline=draw(st.sampled_from(["none", "vector"])))


def body_large_batch(case):
    """n intensity vectors: the capture of every physically mixed spectrum equals the linear model, also in one call with tens of
    thousands of spectra.  Data from numpy's generator seeded with a drawn value; oracle: own trapezoid weights for every row."""
    import dreye

    rng = np.random.default_rng(case["data_seed"])
    nd, nf, ns, nsrc = case["nd"], case["nf"], case["ns"], case["nsrc"]
    x = np.cumsum(rng.uniform(0.5, 1.5, nd))
    F = rng.uniform(0.05, 1.0, (nf, nd))
    src = rng.uniform(0.05, 1.0, (nsrc, nd))
    X = rng.uniform(0.0, 2.0, (ns, nsrc))
    kw = {}
    Kv = np.ones(nf)
    bv = np.zeros(nf)
    if case["K"] == "vector":
        Kv = rng.uniform(0.5, 2.0, nf)
        kw["K"] = Kv
    if case["baseline"] == "vector":
        bv = rng.uniform(0.01, 0.5, nf)
        kw["baseline"] = bv
    w = np.zeros(nd)
    dx = np.diff(x)
    w[:-1] += dx / 2
    w[1:] += dx / 2
    A = (F * w) @ src.T                     # receptors x sources
    with calling(f"ReceptorEstimator.capture / relative_capture ({ns} spectra)"):
        est = dreye.ReceptorEstimator(F, domain=x, **kw)
        est.register_system(src)
        mixed = X @ src
        Q = np.asarray(est.capture(mixed), dtype=float)
        R = np.asarray(est.relative_capture(mixed), dtype=float)
        Qs = np.asarray(est.system_capture(X), dtype=float)
        Rs = np.asarray(est.system_relative_capture(X), dtype=float)
    expQ = X @ A.T
    scale = np.abs(X) @ np.abs(A).T + np.abs(bv)
    for name, got, exp in (("capture of the mixed spectra", Q, expQ), ("relative capture of the mixed spectra", R, Kv * (expQ + bv)),
                           ("system_capture", Qs, expQ), ("system_relative_capture", Rs, Kv * (expQ + bv))):
        check(got.shape == exp.shape, "large-batch:shape", f"{name}: {got.shape} != {exp.shape}")
        bad = np.abs(got - exp) > 1e-9 * np.max(Kv) * scale
        if np.any(bad):
            rows = bad.any(axis=1)
            raise Violation("large-batch:value", f"{name} differs from the linear model in {int(rows.sum())} of {ns} rows (first {int(np.argmax(rows))}, "
                                                 f"last {int(ns - 1 - np.argmax(rows[::-1]))}): got {got[np.argmax(rows)].tolist()} expected {exp[np.argmax(rows)].tolist()}")
    return [f"elements>=2^{int(np.log2(ns * nf * nd))}", f"K:{case['K']}", f"baseline:{case['baseline']}", "nt:large-batch"]


PROP = Prop(
    pid="C02",
    title="A registered system is the exact linear model of the receptor responses",
    rule=RULE,
    assumptions=["own vectorised trapezoid formula (not np.trapezoid) is the reference", "captures of the adapting background are positive (filters/sources floored at 1e-3)"],
    subs=[
        Sub("linear_model", model_case(), body_model, quick=800, thorough=80000, quick_shards=2, min_nt_share=0.2),
        Sub("adaptation", adapt_case(), body_adapt, quick=600, thorough=40000, min_nt_share=0.3),
        Sub("large_batch", large_batch_case(), body_large_batch, quick=24, thorough=320, quick_shards=4, thorough_shards=16, min_nt_share=0.0),
    ],
)
