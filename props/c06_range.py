"""C06 — range of solutions is the exact per-source extent of the solution polytope."""
from __future__ import annotations

import warnings

import numpy as np
from hypothesis import strategies as st

from vlib import gens
from vlib.core import unchanged, Prop, Sub, Violation, calling, check
from vlib.oracles import bvls, lp_dist, lp_extents, lp_margin
from vlib.systems import whole_number_bounds, Sys, matrix_system, target_rows, whole_number_model
from props.c15_units import twin_system


@st.composite
def under_system(draw, surplus=(1, 3)):
    # a quarter of the systems are signed (opponent / difference channels: negative entries in the capture matrix)
    return draw(matrix_system(m=(2, 4), shape="under", surplus=surplus, ub_kinds=("finite",), lb_kinds=("zero", "zero", "pos"),
                              sub_cond=1e4, nonneg=draw(st.sampled_from([True, True, True, False]))))


def call_range(sv: Sys, B, entry, absolute_ok=False, **kw):
    if entry == "estimator":
        est = sv.make_estimator()
        Barr = np.asarray(B, dtype=float)
        if absolute_ok and (sv.K_raw is None or np.ndim(sv.K_raw) <= 1) and int(abs(float(np.sum(Barr))) * 1e6) % 2 == 0:
            # the same in-gamut targets stated as absolute (light-induced) captures, relative=False: the same set of solutions
            # (out-of-gamut targets are another matter: the best fit in absolute capture is not the one in relative capture)
            Kv = np.ones(sv.m) if sv.K_raw is None else np.broadcast_to(np.asarray(sv.K_raw, dtype=float), (sv.m,))
            bv = np.zeros(sv.m) if sv.base_raw is None else np.broadcast_to(np.asarray(sv.base_raw, dtype=float), (sv.m,))
            with unchanged("range", estimator=est):
                return est.range_of_solutions(Barr / Kv - bv, relative=False, **kw)
        with unchanged("range", estimator=est):
            return est.range_of_solutions(B, **kw)
    from dreye.api.convex import range_of_solutions

    return range_of_solutions(B, sv.A, **sv.kwargs(), **kw)


def assert_extents(sv, b, xmin, xmax, tol_frac, label, kind):
    rng = sv.ub - sv.lb
    check(np.all(xmin <= xmax + 1e-12 * rng), f"{label}:min-gt-max", f"min {xmin.tolist()} > max {xmax.tolist()} (kind={kind})",
          observed=dict(b=b.tolist(), min=xmin.tolist(), max=xmax.tolist()))
    check(np.all(xmin >= sv.lb - 1e-9 * rng) and np.all(xmax <= sv.ub + 1e-9 * rng), f"{label}:outside-bounds",
          f"range [{xmin.tolist()}, {xmax.tolist()}] leaves the bounds [{sv.lb.tolist()}, {sv.ub.tolist()}]")
    ext = lp_extents(sv.Ap, sv.basep, sv.lb, sv.ub, b)
    if ext is None:
        return False
    emin, emax = ext
    tol = tol_frac * rng
    check(np.all(np.abs(xmin - emin) <= tol) and np.all(np.abs(xmax - emax) <= tol), f"{label}:extent",
          f"reported [{xmin.tolist()}, {xmax.tolist()}] but the LP extents are [{emin.tolist()}, {emax.tolist()}] (kind={kind})",
          observed=dict(b=b.tolist(), min=xmin.tolist(), max=xmax.tolist(), lp_min=emin.tolist(), lp_max=emax.tolist()))
    return True


# ------------------------------------------------------------------------------------------------


@st.composite
def extent_case(draw):
    sysd, _whole = draw(whole_number_bounds(draw(under_system())))
    rows = draw(target_rows(sysd, ["interior", "interior", "interior", "facet", "face", "vertex"], nrows=(1, 3)))
    # physical units: intensities in units s times larger (bounds / s, A * s), captures in units c times smaller (A, baseline, targets * c);
    # the oracle works on the system as drawn (order 1..100), the call is made in the other units and its answer converted back
    return dict(system=sysd, rows=rows, entry=draw(st.sampled_from(["function", "estimator"])), one_d=draw(st.booleans()),
                sscale=draw(st.sampled_from([1.0, 1.0, 1.0, 1e-3, 1e3])), cscale=draw(st.sampled_from([1.0, 1.0, 1.0, 1e-6, 1e-3, 1e3])))


@st.composite
def proportional_case(draw):
    """two sources with proportional (or identical) captures, e.g. two LEDs of the same model: some square sub-systems are
    exactly singular, the solution polytope and its per-source extents are as well defined as ever"""
    sysd = dict(draw(under_system()))
    A = np.asarray(sysd["A"], dtype=float).copy()
    n = A.shape[1]
    j1 = draw(st.integers(0, n - 1))
    j2 = draw(st.integers(0, n - 2))
    j2 = j2 if j2 < j1 else j2 + 1
    A[:, j2] = A[:, j1] * draw(st.sampled_from([1.0, 1.0, 2.0, 0.5, 0.25]))
    if np.linalg.matrix_rank(A) < A.shape[0]:
        A[:, j2] = np.asarray(sysd["A"], dtype=float)[:, j2]        # (keeps full row rank; then merely a plain system)
    sysd["A"] = A.tolist()
    rows = draw(target_rows(sysd, ["interior", "interior", "random"], nrows=(1, 3)))
    return dict(system=sysd, rows=rows, entry=draw(st.sampled_from(["function", "estimator"])), one_d=draw(st.booleans()), pair=[j1, j2])


def body_proportional(case):
    sv = Sys(case["system"])
    rows = []
    for r in case["rows"]:
        t = lp_margin(sv.Ap, sv.basep, sv.lb, sv.ub, np.asarray(r["b"], dtype=float))
        if t is not None and t >= 1e-6:
            rows.append(dict(r, kind="interior"))
    if not rows:
        return ["no-in-gamut-row"]
    labs = body_extent(dict(case, rows=rows))
    labs += [l for l in body_spaced(dict(case, rows=rows, n=3)) if l.startswith("n")]      # spaced solutions on the same system
    j1, j2 = case["pair"]
    a1, a2 = sv.Ap[:, j1], sv.Ap[:, j2]
    if np.linalg.matrix_rank(np.stack([a1, a2])) == 1:
        labs.append("nt:proportional-sources")
    return labs


def body_extent(case):
    sv = Sys(case["system"])
    labs = sv.labels() + [f"surplus{sv.n - sv.m}", f"entry:{case['entry']}", f"units:s={case.get('sscale', 1.0):g},c={case.get('cscale', 1.0):g}"] + ([f"bounds:{case['system']['bounds_form']}"] if case["system"].get("bounds_form") else [])
    for r in case["rows"]:
        b = np.asarray(r["b"], dtype=float)
        kind = r["kind"]
        boundary = kind in ("facet", "face", "vertex")
        t = lp_margin(sv.Ap, sv.basep, sv.lb, sv.ub, b)
        s_, c_ = float(case.get("sscale", 1.0)), float(case.get("cscale", 1.0))
        sv_call = sv if (s_, c_) == (1.0, 1.0) else Sys(twin_system(case["system"], s_, c_))
        arg = (b if case["one_d"] else b[None, :]) * c_
        try:
            with calling(f"range_of_solutions (units s={s_:g}, c={c_:g})", allow=(ValueError,)):
                out = call_range(sv_call, arg, case["entry"], absolute_ok=True)
                out = (np.asarray(out[0]) * s_, np.asarray(out[1]) * s_) + tuple(out[2:])
        except ValueError as e:
            # out-of-gamut rejection: acceptable only for a target that is outside up to rounding
            d, _ = lp_dist(sv.Ap, sv.basep, sv.lb, sv.ub, b)
            if boundary and (t is None or t < 1e-9):
                labs += ["boundary-rejected", "nt:boundary-target"]
                continue
            raise Violation("extent:in-gamut-rejected", f"in-gamut target (margin {t}) rejected with ValueError: {e} (kind={kind})", observed=dict(b=b.tolist()))
        xmin, xmax = (np.asarray(out[0]), np.asarray(out[1]))
        if not case["one_d"]:
            check(xmin.shape == (1, sv.n) and xmax.shape == (1, sv.n), "extent:shape", f"{xmin.shape}")
            xmin, xmax = xmin[0], xmax[0]
        else:
            check(xmin.shape == (sv.n,), "extent:shape", f"1-D target -> {xmin.shape}")
        ok = assert_extents(sv, b, xmin, xmax, 1e-5 if boundary else 1e-7, "extent", kind)
        if boundary:
            labs += ["boundary-returned", "nt:boundary-target"]
        else:
            labs.append("interior")
        if sv.n - sv.m >= 2:
            labs.append("nt:surplus>=2")
    # whole-number problem (counts): targets, K and baseline as integer-typed arrays give the extents of the same numbers as floats,
    # and those are the LP extents (the target is the rounded capture of a row's interior intensities, kept only if still in the gamut)
    wm = whole_number_model(sv)
    r0 = case["rows"][0]
    if wm is not None and r0.get("x") is not None and (s_, c_) == (1.0, 1.0):
        from dreye.api.convex import range_of_solutions as _range

        sv2 = Sys(dict(case["system"], K=(None if wm[1]["K"] is None else np.asarray(wm[1]["K"]).tolist()),
                       baseline=(wm[1]["baseline"] if np.ndim(wm[1]["baseline"]) == 0 else np.asarray(wm[1]["baseline"]).tolist())))
        whole = np.round(sv2.predict(np.asarray(r0["x"], dtype=float)))
        t2 = lp_margin(sv2.Ap, sv2.basep, sv2.lb, sv2.ub, whole)
        if t2 is not None and t2 >= 1e-6:
            with calling("range_of_solutions of a whole-number problem (int64 / float64)"):
                oi = _range(whole.astype(np.int64), sv.A, lb=sv.lb_arg(), ub=sv.ub_arg(), **wm[0])
                of = _range(whole.copy(), sv.A, lb=sv.lb_arg(), ub=sv.ub_arg(), **wm[1])
            for a_, b_ in zip(oi[:2], of[:2]):
                check(np.all(np.abs(np.asarray(a_, dtype=float) - np.asarray(b_, dtype=float)) <= 1e-9 * (sv.ub - sv.lb)), "extent:integer-typed-problem-differs",
                      f"target {whole.tolist()}, K, baseline as integers give {np.asarray(a_).tolist()}, as floats {np.asarray(b_).tolist()}")
            assert_extents(sv2, whole, np.asarray(oi[0], dtype=float).reshape(-1), np.asarray(oi[1], dtype=float).reshape(-1), 1e-7, "extent:whole", "whole-number")
            labs.append("whole-number-twin")
    return labs


@st.composite
def spaced_case(draw):
    sysd = draw(under_system())
    s = len(sysd["A"][0]) - len(sysd["A"])
    rows = draw(target_rows(sysd, ["interior"], nrows=(1, 2)))
    n = draw(st.integers(2, 10 if s == 1 else (5 if s == 2 else 3)))
    return dict(system=sysd, rows=rows, n=n, entry=draw(st.sampled_from(["function", "estimator"])))


def body_spaced(case):
    sv = Sys(case["system"])
    B = np.array([r["b"] for r in case["rows"]], dtype=float)
    n = case["n"]
    with calling("range_of_solutions(n=)"):
        out = call_range(sv, B, case["entry"], absolute_ok=True, n=n)
    check(len(out) == 3, "spaced:return", f"{len(out)} values returned with n={n}")
    xmins, xmaxs, Xs = out
    rng = sv.ub - sv.lb
    labs = sv.labels() + [f"surplus{sv.n - sv.m}", f"n{n}"]
    for i, b in enumerate(B):
        assert_extents(sv, b, np.asarray(xmins[i]), np.asarray(xmaxs[i]), 1e-7, "spaced", "interior")
        X = np.asarray(Xs[i], dtype=float)
        check(X.ndim == 2 and X.shape[1] == sv.n and X.shape[0] >= n, "spaced:count", f"{X.shape} solutions for n={n}")
        check(np.all(X >= sv.lb - 1e-9 * rng) and np.all(X <= sv.ub + 1e-9 * rng), "spaced:outside-bounds",
              f"spaced solution outside the bounds: worst {np.max(np.maximum(sv.lb - X, X - sv.ub)):.3g}",
              observed=dict(b=b.tolist(), worst=X[int(np.argmax(np.max(np.maximum(sv.lb - X, X - sv.ub), axis=1)))].tolist()))
        pred = sv.predict(X)
        mag = np.abs(X) @ np.abs(sv.Ap).T + np.abs(sv.basep)
        check(np.all(np.abs(pred - b) <= 1e-9 * mag * 10), "spaced:not-reproducing",
              f"spaced solution does not reproduce the target: worst error {np.max(np.abs(pred - b)):.3g}", observed=dict(b=b.tolist()))
        check(np.all(X >= np.asarray(xmins[i]) - 1e-9 * rng) and np.all(X <= np.asarray(xmaxs[i]) + 1e-9 * rng), "spaced:outside-range",
              "spaced solution outside the reported [min, max]")
    if sv.n - sv.m >= 2:
        labs.append("nt:surplus>=2-spaced")
    else:
        labs.append("nt:spaced")
    return labs


@st.composite
def fitted_case(draw):
    sysd = draw(under_system(surplus=(1, 2)))
    rows = draw(target_rows(sysd, ["interior"], nrows=(1, 2)))
    opt = draw(st.sampled_from(["fit", "l2", "min", "max", "var"]))
    return dict(system=sysd, rows=rows, opt=opt)


def body_fitted(case):
    sv = Sys(case["system"])
    B = np.array([r["b"] for r in case["rows"]], dtype=float)
    with calling("range_of_solutions"):
        est = sv.make_estimator()
        xmins, xmaxs = est.range_of_solutions(B)
    with calling(f"fit ({case['opt']})"):
        if case["opt"] == "fit":
            X, _ = est.fit(B)
        else:
            X, _ = est.fit_underdetermined(B, underdetermined_opt=case["opt"], l2_eps=1e-4)
    rng = sv.ub - sv.lb
    # a fit reproduces the target to the solver's 2e-2 capture units; along poorly conditioned directions of A' this allows
    # intensities 2e-2 / sigma_min away from the exact solution polytope
    smin = float(np.linalg.svd(sv.Ap, compute_uv=False)[min(sv.Ap.shape) - 1])
    tol = max(1e-2 * float(np.max(rng)), 4 * 2e-2 / max(smin, 1e-12))
    check(np.all(X >= xmins - tol) and np.all(X <= xmaxs + tol), "fitted:outside-range",
          f"fitted solution {np.asarray(X).tolist()} not between the reported ends [{np.asarray(xmins).tolist()}, {np.asarray(xmaxs).tolist()}]")
    labs = sv.labels() + [f"opt:{case['opt']}", "nt:fitted-between-ends"]
    if case["opt"] in ("min", "max"):
        # the extreme-total solutions touch the reported ends of at least the total: sum within [sum(min), sum(max)]
        labs.append("extreme-total")
    return labs


@st.composite
def outside_case(draw):
    sysd = draw(under_system(surplus=(1, 2)))
    rows = draw(target_rows(sysd, ["outside", "scaled_out"], nrows=(1, 2)))
    inner = draw(target_rows(sysd, ["interior"], nrows=(0, 1)))
    return dict(system=sysd, rows=rows + inner, error=draw(st.sampled_from(["raise", "warn", "ignore"])),
                entry=draw(st.sampled_from(["function", "estimator"])), n=draw(st.sampled_from([None, None, 3])))


def body_outside(case):
    sv = Sys(case["system"])
    B = np.array([r["b"] for r in case["rows"]], dtype=float)
    dists = [lp_dist(sv.Ap, sv.basep, sv.lb, sv.ub, b)[0] for b in B]
    is_out = [d >= 1e-6 * sv.extent for d in dists]
    labs = sv.labels() + [f"error:{case['error']}", "nt:out-of-gamut-target"]
    if not any(is_out):
        return labs[:-1] + ["no-outside-row"]
    err = case["error"]
    kw = {} if case["n"] is None else dict(n=case["n"])
    if err == "raise":
        try:
            with calling("range_of_solutions(error='raise')", allow=(ValueError,)):
                call_range(sv, B, case["entry"], error="raise", **kw)
        except ValueError:
            return labs + ["raised"]
        raise Violation("outside:not-raised", f"target outside the gamut by {max(dists):.3g} did not raise with error='raise'")
    with warnings.catch_warnings(record=True) as rec:
        warnings.simplefilter("always")
        with calling(f"range_of_solutions(error={err!r})"):
            out = call_range(sv, B, case["entry"], error=err, **kw)
    warned = any(issubclass(w.category, RuntimeWarning) and "outside" in str(w.message) for w in rec)
    if err == "warn":
        check(warned, "outside:no-warning", "error='warn' did not emit the RuntimeWarning")
    else:
        check(not warned, "outside:unexpected-warning", "error='ignore' emitted the gamut warning")
    xmins, xmaxs = np.asarray(out[0]), np.asarray(out[1])
    check(xmins.shape == (B.shape[0], sv.n), "outside:shape", f"{xmins.shape}")
    rng = sv.ub - sv.lb
    for i, b in enumerate(B):
        if is_out[i]:
            check(np.array_equal(xmins[i], xmaxs[i]), "outside:ends-differ", "out-of-gamut target: the two ends differ")
            xo, eo = bvls(sv.Ap, sv.basep, sv.lb, sv.ub, b)
            e = float(np.linalg.norm(sv.predict(xmins[i]) - b))
            check(e <= eo + 2e-2, "outside:not-best-fit", f"returned ends have capture error {e:.4g}, best fit has {eo:.4g}")
            check(np.all(xmins[i] >= sv.lb - 1e-2 * rng.max()) and np.all(xmins[i] <= sv.ub + 1e-2 * rng.max()), "outside:bounds", "best fit outside the bounds")
            if case["n"] is not None:
                Xi = np.asarray(out[2][i])
                check(Xi.shape == (1, sv.n) and np.array_equal(Xi[0], xmins[i]), "outside:samples", f"samples for an out-of-gamut target: {Xi.shape}")
        elif dists[i] <= 1e-9 * sv.extent:
            assert_extents(sv, b, xmins[i], xmaxs[i], 1e-7, "outside-mixed", "interior")
    return labs + ["returned"]


def pred_boundary(case):
    return any(r.get("kind") in ("facet", "face", "vertex") for r in case.get("rows", []))


def pred_surplus2(case):
    s = case.get("system")
    return s is not None and len(s["A"][0]) - len(s["A"]) >= 2


RULE = (
    "Hypothesis-generated under-determined well-scaled systems (2-4 receptors, 1-3 surplus sources, lb zero/positive, finite ub, K, "
    "baseline; every m x m column sub-matrix with cond<=1e4) and constructed targets: strictly inside, on facets/faces/vertices of the "
    "zonotope, outside; n spaced solutions for n in 2..10; error raise/warn/ignore; both entry points. Oracle = 2n HiGHS extent LPs "
    "(min/max x_k s.t. A'x=b', box), BVLS for the best fit, direct substitution for spaced solutions. Non-trivial = boundary target, "
    "or >=2 surplus sources, or spaced solutions requested, or an out-of-gamut target."
    " Also: systems with two proportional sources (exactly singular sub-systems; sub-check proportional_sources), the same system in other physical units (s in {1e-3,1,1e3}, c in {1e-6,1e-3,1,1e3}; answer converted back), whole-number bounds as int64 arrays / lists of ints."
    " A whole-number problem (rounded capture of a row's interior intensities, K and baseline rounded) is solved with int64 and with float arguments: equal extents, equal to the LP extents."
)

PROP = Prop(
    pid="C06",
    title="Range of solutions is the exact per-source extent of the solution polytope",
    rule=RULE,
    assumptions=["HiGHS LP extents accurate to 1e-9 of the range for interior targets (1e-5 allowed on boundary targets)",
                 "a boundary target may be rejected as out-of-gamut only if its LP margin is below 1e-9"],
    predicates={"boundary_target": pred_boundary, "surplus_ge_2": pred_surplus2},
    subs=[
        Sub("proportional_sources", proportional_case(), body_proportional, quick=300, thorough=15000, quick_shards=4, min_nt_share=0.3),
        Sub("extent", extent_case(), body_extent, quick=600, thorough=30000, quick_shards=4, min_nt_share=0.25, require_labels=("interior",)),
        Sub("spaced", spaced_case(), body_spaced, quick=300, thorough=15000, quick_shards=4, min_nt_share=0.25),
        Sub("fitted_between", fitted_case(), body_fitted, quick=160, thorough=8000, quick_shards=4, min_nt_share=0.25),
        Sub("outside", outside_case(), body_outside, quick=240, thorough=10000, quick_shards=4, min_nt_share=0.25),
    ],
)
