"""C03 — gamut membership is exact: in-gamut iff reproducible by in-bound intensities."""
from __future__ import annotations

import numpy as np
from hypothesis import strategies as st

from vlib import gens
from vlib.core import Prop, Sub, Violation, calling, check, unchanged
from vlib.oracles import hull_dist, hull_weight_margin, lp_dist, lp_margin
from vlib.systems import proportional_variant, Sys, matrix_system, target_rows

TAU_IN = 1e-6      # inside margin (fraction of the half range) above which acceptance is required
TAU_GEO = 1e-7     # and its geometric lower bound relative to the gamut extent
TAU_OUT = 1e-6     # outside distance (relative to the gamut extent) above which rejection is required


def _dreye():
    import dreye
    return dreye


def _batch_independent(query, B, out, sv):
    """the decision for a target does not depend on the other targets of the call: the same rows together with a very bright
    target (1e7 times the largest entry) and a copy of the first row"""
    big = np.full((1, B.shape[1]), 1e7 * max(float(np.max(np.abs(B))), 1e-300))
    with calling("membership (same targets in a call with a very bright one)"):
        aug = np.asarray(query(np.vstack([B, big, B[:1]])))
    check(aug.shape == (B.shape[0] + 2,), "membership:depends-on-other-targets", f"{aug.shape} decisions for {B.shape[0] + 2} targets")
    # only targets clearly inside or clearly outside decide (a target on the boundary may fall either way, e.g. with the start of qhull's walk)
    for i in list(range(B.shape[0])) + [-1]:
        b = B[i if i >= 0 else 0]
        d, _ = lp_dist(sv.Ap, sv.basep, sv.lb, sv.ub, b)
        t = lp_margin(sv.Ap, sv.basep, sv.lb, sv.ub, b) if sv.bounded and sv.n >= sv.m else None
        ext = max(sv.extent, float(np.max(np.abs(b - sv.basep))))
        if d >= 1e-6 * ext or (t is not None and t >= 1e-5):
            check(bool(aug[i if i >= 0 else B.shape[0] + 1]) == bool(out[i if i >= 0 else 0]), "membership:depends-on-other-targets",
                  f"the decision for target {i if i >= 0 else 0} changes from {bool(out[i if i >= 0 else 0])} to {bool(aug[i if i >= 0 else B.shape[0] + 1])} when a bright target is added to the call")


def _whole_number_twin(query, B):
    """whole-number targets (counts) handed over as an int64 array get the answers of the same numbers as floats"""
    whole = np.round(np.asarray(B, dtype=float))
    if not (np.all(np.isfinite(whole)) and np.all(np.abs(whole) < 2 ** 52)):
        return
    with calling("membership of whole-number targets (int64 / float64)"):
        as_int, as_float = np.asarray(query(whole.astype(np.int64))), np.asarray(query(whole.copy()))
    check(np.array_equal(as_int, as_float), "membership:integer-targets-differ",
          f"targets {whole[:3].tolist()}.. as an int64 array: {as_int.tolist()}, as floats: {as_float.tolist()}")


def _call_membership(sv: Sys, B, entry, relative=True):
    """returns the boolean decisions; entry in {'estimator', 'function'}.  The query is made twice, first on the first row alone:
    it must not change the caller's arrays or the estimator's registered state, so the second answer is the one of a fresh call."""
    B = np.asarray(B, dtype=float)
    if entry == "estimator":
        with calling("ReceptorEstimator.in_hull"):
            est = sv.make_estimator()
            with unchanged("membership", estimator=est, B=B):
                first = np.asarray(est.in_hull(B[:1], relative=relative))
                out = np.asarray(getattr(est, "in_gamut" if int(abs(float(np.sum(B))) * 1e6) % 2 else "in_hull")(B, relative=relative))
        check(bool(first[0]) == bool(out[0]), "membership:second-query-differs", "the same target gets another answer in a second query on the same estimator")
        if relative:
            _batch_independent(lambda BB: np.asarray(est.in_hull(BB, relative=relative)), B, out, sv)
        _whole_number_twin(lambda BB: np.asarray(est.in_hull(BB, relative=relative)), B)
        return out
    from dreye.api.convex import in_hull_from_A

    with calling("in_hull_from_A"):
        kw = sv.kwargs()
        with unchanged("membership", B=B, A=sv.A, **{k: v for k, v in kw.items() if isinstance(v, np.ndarray)}):
            first = np.asarray(in_hull_from_A(B[:1], sv.A, **kw))
            out = np.asarray(in_hull_from_A(B, sv.A, **kw))
    check(bool(first[0]) == bool(out[0]), "membership:second-query-differs", "the same target gets another answer when the same argument arrays are used again")
    _batch_independent(lambda BB: np.asarray(in_hull_from_A(BB, sv.A, **sv.kwargs())), B, out, sv)
    _whole_number_twin(lambda BB: np.asarray(in_hull_from_A(BB, sv.A, **sv.kwargs())), B)
    return out


def _geo_margin(sv: Sys, t):
    """lower bound on the distance of the target from the gamut boundary implied by an x-space margin t."""
    M = sv.Ap * ((sv.ub - sv.lb) / 2.0)[None, :]
    s = np.linalg.svd(M, compute_uv=False)
    smin = s[min(M.shape) - 1] if M.shape[1] >= M.shape[0] else 0.0
    return t * smin


# ------------------------------------------------------------------------------------------------


@st.composite
def iff_case(draw):
    sysd = draw(matrix_system(m=(2, 5), shape=draw(st.sampled_from(["exact", "under", "under"])), ub_kinds=("finite",), surplus=(1, 3)))
    sysd, _prop = draw(proportional_variant(sysd, one_in=6))
    rows = draw(target_rows(sysd, ["interior", "interior", "facet", "face", "vertex", "near_in", "near_in", "near_out", "near_out",
                                   "outside", "scaled_out", "below", "below_lb", "random"], nrows=(2, 8)))
    return dict(system=sysd, rows=rows, entry=draw(st.sampled_from(["estimator", "function"])), proportional=_prop)


def body_iff(case):
    sv = Sys(case["system"])
    B = np.array([r["b"] for r in case["rows"]], dtype=float)
    got = _call_membership(sv, B, case["entry"])
    check(got.shape == (B.shape[0],) and got.dtype == bool, "iff:shape", f"result shape {got.shape} dtype {got.dtype} for {B.shape[0]} targets")
    labs = sv.labels() + [f"entry:{case['entry']}"] + (["proportional-sources"] if case.get("proportional") else [])
    for r, b, g in zip(case["rows"], B, got):
        t = lp_margin(sv.Ap, sv.basep, sv.lb, sv.ub, b)
        d, _ = lp_dist(sv.Ap, sv.basep, sv.lb, sv.ub, b)
        inside = t is not None and t >= TAU_IN and _geo_margin(sv, t) >= TAU_GEO * sv.extent
        outside = d >= TAU_OUT * sv.extent
        if inside:
            labs.append("must-accept")
            if r["kind"] in ("near_in", "facet", "face", "vertex") or (t is not None and t < 1e-3):
                labs.append("nt:near-boundary-inside")
            check(bool(g), "iff:inside-rejected", f"target strictly inside (margin t*={t:.3g}) reported out of gamut; kind={r['kind']}",
                  observed=dict(b=b.tolist(), t=t, d=d))
        elif outside:
            labs.append("must-reject")
            if r["kind"] == "near_out" or d < 1e-3 * sv.extent:
                labs.append("nt:near-boundary-outside")
            check(not bool(g), "iff:outside-accepted", f"target outside by {d:.3g} (extent {sv.extent:.3g}) reported in gamut; kind={r['kind']}",
                  observed=dict(b=b.tolist(), t=t, d=d))
        else:
            labs.append("band")
            labs.append("band-accepted" if g else "band-rejected")
    return labs


@st.composite
def any_case(draw):
    """every configuration: unbounded sources, fewer sources than receptors, dichromats, K/baseline of any shape."""
    cfg = draw(st.sampled_from(["unbounded", "unbounded", "flat", "flat", "dichromat", "general"]))
    if cfg == "unbounded":
        sysd = draw(matrix_system(m=(2, 5), n=(1, 8), ub_kinds=("inf",)))
    elif cfg == "flat":
        sysd = draw(matrix_system(m=(2, 5), shape="over"))
    elif cfg == "dichromat":
        sysd = draw(matrix_system(m=(2, 2), n=(1, 6)))
    else:
        sysd = draw(matrix_system(m=(2, 5), n=(1, 8)))
    rows = draw(target_rows(sysd, ["interior", "interior", "interior", "random", "scaled_out", "below", "below_lb", "below_lb", "outside"], nrows=(2, 6), margin=(0.01, 0.45)))
    return dict(system=sysd, rows=rows, entry=draw(st.sampled_from(["estimator", "function"])), cfg=cfg)


def body_any(case):
    sv = Sys(case["system"])
    B = np.array([r["b"] for r in case["rows"]], dtype=float)
    got = _call_membership(sv, B, case["entry"])
    check(got.shape == (B.shape[0],), "any:shape", f"result shape {got.shape}")
    labs = sv.labels() + [f"cfg:{case['cfg']}", f"entry:{case['entry']}"]
    nt = case["cfg"] != "general" or not sv.bounded or sv.n < sv.m
    for r, b, g in zip(case["rows"], B, got):
        if r["kind"] == "interior":
            labs.append("interior-image")
            check(bool(g), "any:interior-image-rejected",
                  f"capture of intensities strictly inside the bounds (margin {r.get('margin')}) reported out of gamut [{'/'.join(sv.labels())}]",
                  observed=dict(b=b.tolist(), x=r.get("x")))
        if r["kind"] == "below_lb":
            labs.append("below-lb-target")
        if bool(g):
            d, _ = lp_dist(sv.Ap, sv.basep, sv.lb, sv.ub, b)
            labs.append("accepted")
            check(d <= TAU_OUT * max(sv.extent, float(np.max(np.abs(b - sv.basep)))), "any:accepted-not-reproducible",
                  f"target reported in gamut but no in-bound intensity reproduces it (distance {d:.3g}, extent {sv.extent:.3g}) [{'/'.join(sv.labels())}]",
                  observed=dict(b=b.tolist(), d=d))
    if nt:
        labs.append("nt:non-delaunay-configuration")
    return labs


# ------------------------------------------------------------------------------------------------
# chromatic (L1-normalised) membership


@st.composite
def chroma_case(draw):
    sysd = draw(matrix_system(m=(2, 4), n=(2, 6), ub_kinds=("finite",), K_kinds=("none", "scalar", "vector"), base_kinds=("none", "scalar", "vector")))
    sv = Sys(sysd)
    relative = draw(st.sampled_from([True, True, False]))
    k = draw(st.integers(1, 6))
    rows = []
    for _ in range(k):
        u = np.asarray(draw(gens.array((sv.n,), 0.05, 0.95, styles=("raw",))))
        x0 = sv.lb + u * sv.range
        b0 = sv.predict(x0) if relative else sv.A @ x0
        b0 = b0 / b0.sum()
        e = np.asarray(draw(gens.array((sv.m,), 0.0, 1.0, styles=("raw", "int", "sparse"))))
        if e.sum() <= 0:
            e = np.ones(sv.m)
        e = e / e.sum()
        tau = draw(st.one_of(st.floats(0.0, 1.0), st.sampled_from([0.0, 1.0])))
        s = draw(gens.log_uniform(1e-2, 1e2))
        rows.append(dict(b=(s * ((1 - tau) * b0 + tau * e)).tolist(), tau=tau))
    return dict(system=sysd, rows=rows, relative=relative)


def body_chroma(case):
    dreye = _dreye()
    sv = Sys(case["system"])
    rel = case["relative"]
    B = np.array([r["b"] for r in case["rows"]], dtype=float)
    readapted = int(abs(float(B.sum())) * 1e6) % 3 == 0
    with calling("ReceptorEstimator.in_hull(normalized=True)"):
        est = sv.make_estimator()
        if readapted:
            # the same registered state reached through another one: the estimator first answers the query under a different
            # adaptation / baseline, which are then registered back (added after seeded change S-C03-11: stale chromatic hull)
            k_now = 1.0 if sv.K_raw is None else (sv.K_raw if np.ndim(sv.K_raw) == 0 else np.asarray(sv.K_raw, dtype=float))
            b_now = 0.0 if sv.base_raw is None else (sv.base_raw if np.ndim(sv.base_raw) == 0 else np.asarray(sv.base_raw, dtype=float))
            est.register_adaptation(0.5 + np.arange(sv.m, dtype=float))
            est.register_baseline(1.0 + np.arange(sv.m, dtype=float)[::-1])
            est.in_hull(B, relative=rel, normalized=True)
            est.register_adaptation(k_now)
            est.register_baseline(b_now)
        got = np.asarray(est.in_hull(B, relative=rel, normalized=True))
    check(got.shape == (B.shape[0],), "chroma:shape", f"{got.shape}")
    # gamut vertices by own enumeration
    import itertools
    Ap, basep = (sv.Ap, sv.basep) if rel else (sv.A, np.zeros(sv.m))
    V = np.array([np.where(np.array(bits) == 1, sv.ub, sv.lb) for bits in itertools.product([0, 1], repeat=sv.n)])
    P = V @ Ap.T + basep
    P = P[np.abs(P).sum(axis=1) > 0]
    Ph = P / np.abs(P).sum(axis=1, keepdims=True)
    labs = sv.labels() + ["relative" if rel else "absolute"] + (["re-adapted"] if readapted else [])
    if sv.m == 2:
        labs.append("nt:dichromat")
    # a chromatic gamut spanned by fewer than m sources is flat inside the (m-1)-simplex: "strictly inside" is then only
    # meaningful for exact chromaticities of in-bound intensities (completeness clause), everything else near it is band
    full = np.linalg.matrix_rank(Ph - Ph.mean(0), tol=1e-9) == sv.m - 1
    labs.append("fulldim" if full else "flat-chromatic-gamut")
    dPh = np.abs(Ph[:, None, :] - Ph[None, :, :])
    if np.any((dPh > 0) & (dPh < 1e-7 * max(float(np.max(Ph.max(0) - Ph.min(0))), 1e-300))):
        # two chromatic vertices that nearly coincide (an almost achromatic source next to the baseline's chromaticity): a hull
        # that is full-dimensional by 1e-8 is not resolvable by any tolerance-based test (as for the explicit clouds)
        return labs + ["nearly-coincident-chromatic-vertices-skipped"]
    sv_ = np.linalg.svd(Ph - Ph.mean(0), compute_uv=False)
    if not full and len(sv_) >= sv.m - 1 and sv_[sv.m - 2] > 1e-15 * sv_[0] and sv.n + (1 if np.any(basep != 0) else 0) >= sv.m:
        # flat only up to rounding (two receptors whose captures agree to 1e-12: a chromatic gamut of thickness 1e-13), not by
        # construction (fewer spanning points than dimensions): the same unresolvable class as the nearly coincident vertices
        return labs + ["numerically-flat-chromatic-gamut-skipped"]
    for r, b, g in zip(case["rows"], B, got):
        bh = b / np.abs(b).sum()
        t = hull_weight_margin(Ph, bh)
        d, _ = hull_dist(Ph, bh)
        if (full and t is not None and t >= 1e-6) or ((not full) and r["tau"] == 0.0):
            labs.append("must-accept")
            if full and t < 1e-3:
                labs.append("nt:near-boundary-inside")
            if not full:
                labs.append("nt:flat-chromatic-member")
            check(bool(g), "chroma:inside-rejected", f"chromaticity inside the chromatic gamut (weight margin {t}, full-dimensional={bool(full)}) rejected", observed=dict(b=b.tolist()))
        elif d >= 1e-7:
            labs.append("must-reject")
            if d < 1e-3:
                labs.append("nt:near-boundary-outside")
            check(not bool(g), "chroma:outside-accepted", f"chromaticity outside the chromatic gamut by {d:.3g} accepted", observed=dict(b=b.tolist()))
        else:
            labs.append("band")
    return labs


# ------------------------------------------------------------------------------------------------
# explicit point clouds through dreye.in_hull


@st.composite
def cloud_case(draw):
    d = draw(st.integers(2, 5))
    kind = draw(st.sampled_from(["general", "general", "lattice", "flat"]))
    k = draw(st.integers(d + 1, 14))
    if kind == "lattice":
        P = np.asarray(draw(gens.array((k, d), 0.0, 3.0, styles=("int100",))), dtype=float).reshape(k, d)
    else:
        P = np.asarray(draw(gens.array((k, d), -10.0, 10.0, styles=("raw",), tiny=1e-6)), dtype=float).reshape(k, d)
    if kind == "flat":
        # rank-deficient cloud: points in a (d-1)-dimensional subspace through an offset
        P[:, -1] = P[:, :-1] @ np.asarray(draw(gens.array((d - 1,), -1.0, 1.0, styles=("raw",)))) + draw(st.floats(-1, 1))
    nq = draw(st.integers(1, 6))
    W = np.asarray(draw(gens.array((nq, k), 0.0, 1.0, styles=("raw", "sparse")))).reshape(nq, k)
    kinds = draw(st.lists(st.sampled_from(["inside", "inside", "vertex", "outside", "near"]), min_size=nq, max_size=nq))
    rows = []
    c = P.mean(axis=0)
    for w, kd in zip(W, kinds):
        if w.sum() <= 0:
            w = np.ones(k)
        w = w / w.sum()
        q = w @ P
        if kd == "vertex":
            q = P[int(np.argmax(w))]
        elif kd == "outside":
            q = c + (q - c) * draw(st.floats(1.5, 10.0)) + (P.max(0) - P.min(0)) * draw(st.floats(0.0, 1.0))
        elif kd == "near":
            v = P[int(np.argmax(w))]
            q = v + (c - v) * draw(st.sampled_from([1e-3, -1e-3, 1e-6, -1e-6]))
        rows.append(q.tolist())
    return dict(P=P.tolist(), B=rows, kind=kind)


def _dist_to_span(P, b):
    """distance of b from the affine span of the cloud (exact to rounding; the LP's equality tolerance is only 1e-7)"""
    c = P.mean(axis=0)
    U, sv_, Vt = np.linalg.svd(P - c, full_matrices=False)
    r = int(np.sum(sv_ > 1e-9 * max(sv_[0], 1e-300)))
    Q = Vt[:r]
    v = b - c
    return float(np.linalg.norm(v - Q.T @ (Q @ v)))


def body_cloud(case):
    dreye = _dreye()
    P = np.asarray(case["P"], dtype=float)
    B = np.asarray(case["B"], dtype=float)
    P0, B0 = P.copy(), B.copy()
    if float(np.max(np.abs(P))) < 1e-20 or float(np.max(P.max(0) - P.min(0))) < 1e-20:
        return ["cloud-below-1e-20-skipped"]       # squared distances underflow: outside the explored magnitudes (see DESIGN 8.6)
    span_ = float(np.max(P.max(0) - P.min(0)))
    dP = np.abs(P[:, None, :] - P[None, :, :])
    if np.any((dP > 0) & (dP < 1e-9 * span_)):
        # two points that differ by less than 1e-9 of the cloud's size in some coordinate: a hull that is "full-dimensional" by
        # 1e-11 is not geometry any tolerance-based membership test can resolve (C17 snaps such coordinates in its generator)
        return ["coordinates-differing-below-1e-9-skipped"]
    with calling("dreye.in_hull"):
        got = np.asarray(dreye.in_hull(P, B))
    check(got.shape == (B.shape[0],), "cloud:shape", f"{got.shape}")
    check(np.array_equal(P, P0) and np.array_equal(B, B0), "cloud:inputs-modified", "in_hull modified its inputs")
    span = float(np.max(P.max(0) - P.min(0))) or 1.0
    full = np.linalg.matrix_rank(P - P.mean(0), tol=1e-9 * span) == P.shape[1]
    labs = [f"d{P.shape[1]}", case["kind"], "fulldim" if full else "flat"]
    for b, g in zip(B, got):
        t = hull_weight_margin(P, b)
        d, _ = hull_dist(P, b)
        if d >= 1e-7 * span:
            labs.append("must-reject")
            check(not bool(g), "cloud:outside-accepted", f"point outside the hull by {d:.3g} accepted", observed=dict(b=b.tolist()))
        elif full and t is not None and t >= 1e-6:
            labs.append("must-accept")
            check(bool(g), "cloud:inside-rejected", f"point strictly inside the hull (weight margin {t:.3g}) rejected", observed=dict(b=b.tolist()))
        elif (not full) and t is not None and t >= 1e-3 and _dist_to_span(P, b) <= 1e-13 * span:
            # flat cloud: a convex combination with all weights well above zero is a member (soundness/completeness clause)
            labs.append("flat-member")
            check(bool(g), "cloud:flat-member-rejected", f"convex combination of a flat cloud (weight margin {t:.3g}) rejected", observed=dict(b=b.tolist()))
        else:
            labs.append("band")
    if case["kind"] in ("lattice", "flat") or "must-reject" in labs:
        labs.append("nt:degenerate-or-outside")
    return labs


@st.composite
def shape_case(draw):
    sysd = draw(matrix_system(m=(2, 4), n=(2, 5), ub_kinds=("finite",), K_kinds=("none", "vector"), base_kinds=("none", "vector")))
    rows = draw(target_rows(sysd, ["interior", "outside"], nrows=(1, 1)))
    return dict(system=sysd, rows=rows)


def body_shape(case):
    sv = Sys(case["system"])
    b = np.asarray(case["rows"][0]["b"], dtype=float)
    with calling("ReceptorEstimator.in_hull(1-D target)"):
        est = sv.make_estimator()
        g1 = est.in_hull(b)
        g2 = np.asarray(est.in_hull(b[None, :]))
        g3 = np.asarray(est.in_gamut(b[None, :]))
    check(np.ndim(g1) == 0 and g2.shape == (1,), "shape:contract", f"1-D target -> ndim {np.ndim(g1)}, 2-D -> {g2.shape}")
    check(bool(g1) == bool(g2[0]) == bool(g3[0]), "shape:consistency", "1-D and 2-D decisions differ")
    return ["nt:1d-vs-2d"]


def pred_unbounded(case):
    return case.get("system", {}).get("ub") is None


def pred_flat(case):
    s = case.get("system")
    return s is not None and len(s["A"][0]) < len(s["A"])


RULE = (
    "Hypothesis-generated systems A (2-5 receptors x 1-8 sources, well-scaled, cond<=1e3), lb zero/positive, ub finite/infinite, K "
    "none/scalar/vector/matrix, baseline none/scalar/vector; targets constructed as images of strictly-inside intensities, zonotope "
    "facet/face/vertex points, near-boundary pairs at distance 1e-9..1e-2 x extent on both sides, far-outside, below-baseline; both "
    "entry points (ReceptorEstimator.in_hull and in_hull_from_A), chromatic membership, and explicit clouds through dreye.in_hull. "
    "Oracle = HiGHS LPs on the transformed system (x-space margin, inf-norm distance, convex-weight margin). Assertions only outside "
    "the boundary band (inside margin >= 1e-6, outside distance >= 1e-6 x extent); band outcomes are tallied. Non-trivial = a "
    "near-boundary/boundary target, or a non-Delaunay configuration (unbounded, fewer sources than receptors, dichromat, flat cloud)."
    " Every membership query is made twice on the same estimator / with the same argument arrays, whose state is byte-compared before and after; a sixth of the bounded under-determined systems have two sources with proportional captures."
    " Every membership call is repeated on the rounded targets as an int64 array and as floats: same answers."
)

PROP = Prop(
    pid="C03",
    title="Gamut membership is exact: in-gamut iff reproducible by in-bound intensities",
    rule=RULE,
    assumptions=["HiGHS LP optimal values are accurate to 1e-9", "decisions inside the boundary band |margin| < 1e-6 are not asserted"],
    predicates={"unbounded": pred_unbounded, "flat": pred_flat},
    subs=[
        Sub("iff_bounded", iff_case(), body_iff, quick=500, thorough=40000, quick_shards=4, min_nt_share=0.12, require_labels=("must-accept", "must-reject")),
        Sub("any_configuration", any_case(), body_any, quick=400, thorough=30000, quick_shards=4, min_nt_share=0.15),
        Sub("chromatic", chroma_case(), body_chroma, quick=300, thorough=20000, quick_shards=2, min_nt_share=0.1),
        Sub("explicit_cloud", cloud_case(), body_cloud, quick=500, thorough=40000, quick_shards=2, min_nt_share=0.2),
        Sub("shape_contract", shape_case(), body_shape, quick=100, thorough=3000, thorough_shards=4, min_nt_share=0.3),
    ],
)
