"""C16 — barycentric and n-sphere coordinate transforms are exact mutual inverses."""
from __future__ import annotations

import math

import numpy as np
from hypothesis import strategies as st

from vlib import gens
from vlib.core import Prop, Sub, Violation, calling, check


def _dreye():
    import dreye
    return dreye


def _bary():
    from dreye.api import barycentric
    return barycentric


# ------------------------------------------------------------------------------------------------
# generators


@st.composite
def points(draw, dmin=2, dmax=12, nmax=8, lo=-1e3, hi=1e3, huge=True):
    """point sets with rows on axes / planes, the origin, zero tails, negative coordinates, huge/tiny magnitudes."""
    d = draw(st.integers(dmin, dmax))
    n = draw(st.one_of(st.integers(1, nmax), st.sampled_from([1, 2, 50]) if nmax >= 8 else st.just(1)))
    X = np.asarray(draw(gens.array((n, d), lo, hi)), dtype=float).reshape(n, d)
    styles = draw(st.lists(st.sampled_from(["ord", "ord", "axis", "plane", "origin", "zerotail", "ones"]), min_size=n, max_size=n))
    masks = draw(st.lists(st.integers(0, 2 ** d - 1), min_size=n, max_size=n))
    exps = draw(st.lists(st.sampled_from([0, 0, 0, 0, -97, -30, -5, 5, 30, 97] if huge else [0]), min_size=n, max_size=n))
    for r in range(n):
        s, m = styles[r], masks[r]
        if s == "axis":
            k = m % d
            v = X[r, k] if X[r, k] != 0 else 1.0
            X[r] = 0.0
            X[r, k] = v
        elif s == "plane":
            for k in range(d):
                if (m >> k) & 1:
                    X[r, k] = 0.0
        elif s == "origin":
            X[r] = 0.0
        elif s == "zerotail":
            k = 1 + m % (d - 1) if d > 1 else 0
            X[r, k:] = 0.0
        elif s == "ones":
            X[r] = np.sign(X[r]) + (X[r] == 0)
        if exps[r]:
            X[r] = X[r] * (10.0 ** exps[r])
    # stated restriction: magnitudes are 0 or within 1e-100..1e100 (squares neither underflow nor overflow)
    X[np.abs(X) < 1e-100] = 0.0
    return dict(X=(X + 0.0).tolist())


def _nt_labels(X):
    labs = [f"d{X.shape[1]}" if X.shape[1] < 5 else "d>=5"]
    if np.any(X == 0):
        labs.append("nt:zero-coordinate")
    if np.any(X[:, -1] < 0):
        labs.append("nt:negative-last")
    if X.shape[1] >= 5:
        labs.append("nt:dim>=5")
    if np.any(np.all(X == 0, axis=1)):
        labs.append("origin")
    amax = np.max(np.abs(X)) if X.size else 0
    if amax > 1e20 or (0 < amax < 1e-20):
        labs.append("extreme-magnitude")
    return labs


def _fsum_norm(row):
    m = max(abs(v) for v in row)
    if m == 0:
        return 0.0
    return m * math.sqrt(math.fsum((v / m) ** 2 for v in row))


# ------------------------------------------------------------------------------------------------
# spherical


def body_spherical(case):
    dreye = _dreye()
    X = np.asarray(case["X"], dtype=float)
    form = (None, None, "list", "int")[int(abs(float(X.sum())) * 1e6) % 4 if np.isfinite(X.sum()) else 0]     # argument form derived from the case
    if form == "int" and np.all(np.isfinite(X)) and float(np.max(np.abs(X))) < 1e4:
        # whole numbers, also large ones (counts of 1e5 .. 1e10: their squares do not fit every integer type)
        X = np.round(X) * float(10 ** ((int(abs(float(np.round(X).sum()))) % 3) * 5))
    X0 = X.copy()
    with calling(f"cartesian_to_spherical (argument as {form or 'float array'})"):
        with np.errstate(all="ignore"):
            Y = np.asarray(dreye.cartesian_to_spherical(gens.as_form(X, form) if form else X))
    check(Y.shape == X.shape, "spherical:shape", f"shape {Y.shape} != {X.shape}")
    check(np.array_equal(X, X0), "spherical:input-modified", "input modified")
    check(not np.any(np.isnan(Y)), "spherical:nan", f"NaN in spherical coordinates for X={X[np.any(np.isnan(Y), axis=1)][:1].tolist()}")
    r = np.array([_fsum_norm(row) for row in X.tolist()])
    check(np.all(np.abs(Y[:, 0] - r) <= 1e-13 * r), "spherical:radius", f"radius {Y[:, 0].tolist()} != norm {r.tolist()}")
    pol = Y[:, 1:-1]
    check(np.all((pol >= 0) & (pol <= np.pi)), "spherical:polar-range", f"polar angle outside [0, pi]: {pol.tolist()}")
    az = Y[:, -1]
    check(np.all((az >= 0) & (az <= 2 * np.pi)), "spherical:azimuth-range", f"azimuth outside [0, 2pi]: {az.tolist()}")
    with calling("spherical_to_cartesian"):
        Xb = np.asarray(dreye.spherical_to_cartesian(Y))
    check(Xb.shape == X.shape, "spherical:shape-back", f"shape {Xb.shape}")
    err = np.abs(Xb - X)
    tol = 1e-7 * r[:, None] * X.shape[1]
    if not np.all(err <= tol):
        k = int(np.argmax((err / (tol + 1e-300)).max(axis=1)))
        raise Violation("spherical:roundtrip", f"X={X[k].tolist()} -> Y={Y[k].tolist()} -> {Xb[k].tolist()}",
                        observed=dict(x=X[k].tolist(), back=Xb[k].tolist()))
    return _nt_labels(X)


@st.composite
def angles_case(draw):
    d = draw(st.integers(2, 12))
    n = draw(st.integers(1, 6))
    r = draw(st.lists(gens.log_uniform(1e-6, 1e6), min_size=n, max_size=n))
    pol = np.asarray(draw(gens.array((n, max(d - 2, 0)), 0.05, math.pi - 0.05, styles=("raw",))), dtype=float).reshape(n, max(d - 2, 0))
    az = draw(st.lists(st.floats(0.05, 2 * math.pi - 0.05), min_size=n, max_size=n))
    Y = np.hstack([np.asarray(r)[:, None], pol, np.asarray(az)[:, None]])
    return dict(Y=Y.tolist())


def body_angles(case):
    dreye = _dreye()
    Y = np.asarray(case["Y"], dtype=float)
    # argument form derived from the case: float array, list, or whole-number coordinates (radius >= 1, angles 1..3 / 1..6 rad) as integers
    form = (None, None, "list", "int")[int(abs(float(Y.sum())) * 1e6) % 4]
    if form == "int":
        Y = np.round(Y)
        Y[:, 0] = np.maximum(Y[:, 0], 1.0)
        Y[:, 1:-1] = np.clip(Y[:, 1:-1], 1.0, 3.0)
        Y[:, -1] = np.clip(Y[:, -1], 1.0, 6.0)
    Y0 = Y.copy()
    with calling(f"spherical_to_cartesian (argument as {form or 'float array'})"):
        X = np.asarray(dreye.spherical_to_cartesian(gens.as_form(Y, form) if form else Y))
    check(np.array_equal(Y, Y0), "angles:input-modified", "input modified")
    check(X.shape == Y.shape, "angles:shape", f"{X.shape}")
    # textbook n-sphere formula, point by point: x_k = r sin(a_1) .. sin(a_k) cos(a_{k+1}), last coordinate all sines
    for yrow, xrow in zip(Y.tolist(), X.tolist()):
        rr, ang = yrow[0], yrow[1:]
        expect, pref = [], rr
        for a in ang:
            expect.append(pref * math.cos(a))
            pref *= math.sin(a)
        expect.append(pref)
        check(all(abs(e - x) <= 1e-12 * rr for e, x in zip(expect, xrow)), "angles:formula",
              f"spherical_to_cartesian({yrow}) = {xrow}, the n-sphere formula gives {expect} (argument as {form or 'float array'})")
    with calling("cartesian_to_spherical"):
        with np.errstate(all="ignore"):
            Yb = np.asarray(dreye.cartesian_to_spherical(X))
    check(Yb.shape == Y.shape, "angles:shape", f"{Yb.shape}")
    # conditioning of arccos away from 0/pi by 0.05 rad: errors amplified by at most ~1/sin(0.05)^(d-1) per level
    tol_r = 1e-12 * Y[:, 0]
    check(np.all(np.abs(Yb[:, 0] - Y[:, 0]) <= tol_r), "angles:radius", f"{Yb[:, 0].tolist()} vs {Y[:, 0].tolist()}")
    amp = (1.0 / math.sin(0.05)) ** min(Y.shape[1] - 1, 12)
    tol_a = max(1e-9, 1e-15 * amp * 100)
    err = np.abs(Yb[:, 1:] - Y[:, 1:])
    if not np.all(err <= tol_a):
        k = int(np.argmax(err.max(axis=1)))
        raise Violation("angles:roundtrip", f"Y={Y[k].tolist()} -> X={X[k].tolist()} -> {Yb[k].tolist()} (tol {tol_a:.2g})")
    labs = [f"d{Y.shape[1]}", f"form:{form or 'array'}"]
    labs.append("nt:generic-angles" if Y.shape[1] >= 3 else "nt:2d")
    return labs


# ------------------------------------------------------------------------------------------------
# barycentric


def enum_corners(tier):
    return [dict(n=n, center=c) for n in range(2, 13 if tier == "quick" else 41) for c in (False, True)]


def body_corners(case):
    b = _bary()
    n = case["n"]
    with calling("barycentric_to_cartesian"):
        V = np.asarray(b.barycentric_to_cartesian(np.eye(n), center=case["center"]))
    check(V.shape == (n, n - 1), "corners:shape", f"{V.shape}")
    D = np.sqrt(((V[:, None, :] - V[None, :, :]) ** 2).sum(-1))
    off = D[~np.eye(n, dtype=bool)]
    check(np.all(np.abs(off - 1.0) <= 1e-12), "corners:unit-edges", f"n={n}: edge lengths in [{off.min()!r}, {off.max()!r}]")
    if case["center"]:
        check(np.all(np.abs(V.mean(0)) <= 1e-12), "corners:centred", f"centroid {V.mean(0).tolist()}")
    return ["nt:regular-simplex", f"n{n}" if n < 6 else "n>=6"]


@st.composite
def bary_case(draw):
    n = draw(st.integers(2, 12))
    k = draw(st.integers(1, 6))
    X = draw(gens.array((k, n), -1e3, 1e3))
    w = draw(gens.array((k,), -3, 3))
    L1 = draw(st.one_of(st.none(), gens.log_uniform(1e-3, 1e3), st.just("rows")))
    Yc = draw(gens.array((k, n - 1), -10, 10))
    lam = draw(gens.log_uniform(1e-6, 1e6))
    return dict(X=X, w=w, L1=L1, Y=Yc, lam=lam, center=draw(st.booleans()))


def body_bary(case):
    b = _bary()
    X = np.asarray(case["X"], dtype=float)
    k, n = X.shape
    center = case["center"]
    labs = [f"n{n}" if n < 5 else "n>=5", "centered" if center else "uncentered"]
    # (0) the two variants do not influence each other (no hidden module state): un-centred, centred, un-centred again; the
    # centred image is the un-centred one minus the centroid of the corners' images
    with calling("barycentric_to_cartesian (un-centred / centred / un-centred)"):
        Xn = X
        Y0 = np.asarray(b.barycentric_to_cartesian(Xn, center=False))
        Yc = np.asarray(b.barycentric_to_cartesian(Xn, center=True))
        Y1 = np.asarray(b.barycentric_to_cartesian(Xn, center=False))
        corners = np.asarray(b.barycentric_to_cartesian(np.eye(n), center=False))
    check(np.array_equal(Y0, Y1, equal_nan=True), "bary:call-order-dependence", "the un-centred conversion gives another result after a centred call")
    check(np.all(np.abs(Yc - (Y0 - corners.mean(axis=0))) <= 1e-12 * (1 + np.abs(Y0))), "bary:centred-is-shifted",
          "centred image != un-centred image minus the centroid of the simplex")
    with calling("barycentric_to_cartesian (rows that do not sum to 1)"):
        Yr0 = np.asarray(b.barycentric_to_cartesian(X, center=False))
        Yrc = np.asarray(b.barycentric_to_cartesian(X, center=True))
    check(np.all(np.abs(Yrc - (Yr0 - corners.mean(axis=0))) <= 1e-12 * (1 + np.abs(Yr0))), "bary:centred-is-shifted",
          "centred image != un-centred image minus the centroid of the simplex (rows with any total: the map is affine with ONE offset)")
    # (b) affine: image of an affine combination = combination of images
    w = np.asarray(case["w"], dtype=float)
    if abs(w.sum()) > 1e-3:
        w = w / w.sum()
        with calling("barycentric_to_cartesian"):
            img = np.asarray(b.barycentric_to_cartesian(X, center=center))
            comb = np.asarray(b.barycentric_to_cartesian((w @ X)[None, :], center=center))[0]
        scale = (np.abs(w)[:, None] * np.abs(X)).sum() + 1.0
        check(np.all(np.abs(w @ img - comb) <= 1e-12 * scale), "bary:affine",
              f"f(sum w x) = {comb.tolist()} but sum w f(x) = {(w @ img).tolist()}")
        labs.append("affine")
    # (c) round trip for rows with sum 1 and requested L1
    s = X.sum(axis=1)
    ok = np.abs(s) > 1e-3 * np.abs(X).sum(axis=1)
    if np.any(ok):
        Xs = X[ok] / s[ok][:, None]          # rows sum to 1 (entries may be negative: affine coordinates)
        with calling("barycentric_to_cartesian/cartesian_to_barycentric"):
            Yc = np.asarray(b.barycentric_to_cartesian(Xs, center=center))
            L1 = case["L1"]
            if L1 is None:
                back = np.asarray(b.cartesian_to_barycentric(Yc, centered=center))
                target = Xs
            elif L1 == "rows":
                L1v = np.abs(s[ok]) + 1.0
                back = np.asarray(b.cartesian_to_barycentric(Yc, L1=L1v, centered=center))
                target = Xs * L1v[:, None]
            else:
                back = np.asarray(b.cartesian_to_barycentric(Yc, L1=float(L1), centered=center))
                target = Xs * float(L1)
        check(back.shape == target.shape, "bary:roundtrip-shape", f"{back.shape}")
        scale = np.abs(target).sum(axis=1, keepdims=True) + 1e-300
        check(np.all(np.abs(back - target) <= 1e-11 * scale * n), "bary:roundtrip",
              f"n={n} center={center} L1={case['L1']}: {target[:1].tolist()} -> {back[:1].tolist()}")
        labs.append("nt:roundtrip")
    # rows of the inverse sum to the requested L1 for arbitrary cartesian points
    Yany = np.asarray(case["Y"], dtype=float).reshape(k, n - 1)
    L1 = case["L1"]
    L1v = np.ones(k) if L1 is None else (np.arange(1, k + 1, dtype=float) if L1 == "rows" else np.full(k, float(L1)))
    with calling("cartesian_to_barycentric"):
        B = np.asarray(b.cartesian_to_barycentric(Yany, L1=(None if L1 is None else (L1v if L1 == "rows" else float(L1))), centered=center))
    check(B.shape == (k, n), "bary:inverse-shape", f"{B.shape}")
    check(np.all(np.abs(B.sum(axis=1) - L1v) <= 1e-10 * (np.abs(B).sum(axis=1) + L1v)), "bary:inverse-sum",
          f"rows sum to {B.sum(axis=1).tolist()} instead of {L1v.tolist()}")
    with calling("barycentric_to_cartesian"):
        Yb = np.asarray(b.barycentric_to_cartesian(B / L1v[:, None], center=center))
    check(np.all(np.abs(Yb - Yany) <= 1e-10 * (np.abs(Yany).sum(axis=1, keepdims=True) + 1) * n), "bary:inverse-roundtrip",
          f"cartesian {Yany[:1].tolist()} -> barycentric -> {Yb[:1].tolist()}")
    # (d) chromatic reduction is invariant to the overall scale of a (non-negative) capture vector
    # capture vectors: entries 0 or in [1e-3, 1e3], so that lam * total >= 1e-9 (sklearn's l1-normalisation treats norms
    # below 10*eps as zero; that absolute threshold is outside the domain explored here, see DESIGN.md section 7)
    P = np.abs(X)
    P[P < 1e-3] = 0.0
    lam = case["lam"]
    with calling("barycentric_dim_reduction"):
        r1 = np.asarray(b.barycentric_dim_reduction(P, center=center))
        r2 = np.asarray(b.barycentric_dim_reduction(P * lam, center=center))
    check(np.all(np.abs(r1 - r2) <= 1e-12), "bary:scale-invariance", f"lam={lam}: {r1[:1].tolist()} vs {r2[:1].tolist()}")
    # and equals the conversion of the l1-normalised vector
    tot = P.sum(axis=1)
    nz = tot > 0
    if np.any(nz):
        with calling("barycentric_to_cartesian"):
            r3 = np.asarray(b.barycentric_to_cartesian(P[nz] / tot[nz][:, None], center=center))
        check(np.all(np.abs(r1[nz] - r3) <= 1e-12), "bary:reduction-definition", "dim reduction != conversion of the L1-normalised vector")
    if n >= 5:
        labs.append("nt:dim>=5")
    return labs


RULE = (
    "Spherical: Hypothesis-generated point sets (1-50 points, dimension 2-12) whose rows are ordinary floats in [-1e3,1e3], "
    "axis points, points on coordinate planes, the origin, rows with all-zero tails, +-1 rows, each optionally scaled by 10^(+-5,30,100); "
    "oracle = own fsum Euclidean norm, angle ranges, and the round trip to 1e-7*radius*d (arccos conditioning is sqrt(eps)); plus the reverse "
    "round trip for generic angles (0.05 rad away from the degenerate set). Barycentric: all n in 2..12 (corners enumerated exhaustively, "
    "n<=40 in thorough), affine-combination law, round trips with L1 None/scalar/per-row, centred and un-centred, scale invariance "
    "lam in [1e-6,1e6]. Non-trivial = a point with an exact zero coordinate or a negative last coordinate, or dimension >= 5 "
    "(spherical); a round trip actually exercised or n >= 5 (barycentric)."
    " The cartesian points are also handed over as nested lists and int64 arrays."
    " The angle-first sub-check hands the spherical coordinates over as arrays, nested lists or whole numbers as int64 and compares with the n-sphere formula evaluated with math."
)

PROP = Prop(
    pid="C16",
    title="Barycentric and n-sphere coordinate transforms are exact mutual inverses",
    rule=RULE,
    assumptions=[
        "magnitudes restricted to 1e-100..1e100 so that squares neither underflow nor overflow (stated in the design)",
        "round-trip tolerance 1e-7*radius*d for the arccos-based transform (its conditioning near the poles is sqrt(eps))",
    ],
    subs=[
        Sub("spherical", points(), body_spherical, quick=3000, thorough=300000, quick_shards=2, min_nt_share=0.3),
        Sub("spherical_angles", angles_case(), body_angles, quick=1500, thorough=100000, min_nt_share=0.3),
        Sub("bary_corners", None, body_corners, enumerate_cases=enum_corners, quick=1, thorough=1, quick_shards=1, thorough_shards=1, min_nt_share=0.0),
        Sub("barycentric", bary_case(), body_bary, quick=2000, thorough=200000, quick_shards=2, min_nt_share=0.3),
    ],
)
