"""C12 — gamut-corrective scalings keep hue and ratios and land in the chromatic gamut."""
from __future__ import annotations

import itertools

import numpy as np
from hypothesis import strategies as st

from vlib import gens
from vlib.core import unchanged, Prop, Sub, Violation, calling, check
from vlib.oracles import _linprog, hull_dist
from vlib.systems import Sys, matrix_system


@st.composite
def adapted_system(draw, m=(2, 4)):
    """system adapted to an interior intensity (the tutorials' regime): K = 1 / (A x_mid + baseline), so that the neutral
    point (1,..,1) is the chromaticity of an in-bound intensity and therefore inside the chromatic gamut."""
    sysd = draw(matrix_system(m=m, n=(2, 6), shape=draw(st.sampled_from(["exact", "under", "under"])), surplus=(1, 2),
                              ub_kinds=("finite",), lb_kinds=("zero", "zero", "pos"), K_kinds=("none",),
                              base_kinds=("none", "none", "scalar", "vector")))
    sv = Sys(sysd)
    u = np.asarray(draw(gens.array((sv.n,), 0.25, 0.75, styles=("raw",))))
    x_mid = sv.lb + u * (sv.ub - sv.lb)
    q = sv.A @ x_mid + sv.basep            # K is none here: basep = baseline
    sysd = dict(sysd, K=(1.0 / q).tolist())
    return sysd, x_mid.tolist()


def gamut_vertices(sv, relative):
    Ap, basep = (sv.Ap, sv.basep) if relative else (sv.A, np.zeros(sv.m))
    V = np.array([np.where(np.array(bits) == 1, sv.ub, sv.lb) for bits in itertools.product([0, 1], repeat=sv.n)])
    P = V @ Ap.T + basep
    return P[np.abs(P).sum(axis=1) > 0]


def ray_factor(Ph, c, bh):
    """largest t with c + t (bh - c) in hull(Ph) (rows of Ph are L1-normalised gamut vertices)."""
    k, m = Ph.shape
    obj = np.zeros(k + 1)
    obj[-1] = -1.0
    A_eq = np.vstack([np.hstack([Ph.T, -(bh - c)[:, None]]), np.hstack([np.ones((1, k)), np.zeros((1, 1))])])
    b_eq = np.concatenate([c, [1.0]])
    r = _linprog(obj, A_eq=A_eq, b_eq=b_eq, bounds=[(0, None)] * k + [(0, None)])
    if r.status == 3:
        return np.inf
    if r.status != 0:
        return None
    return float(r.x[-1])


@st.composite
def dist_case(draw):
    sysd, x_mid = draw(adapted_system())
    sv = Sys(sysd)
    relative = draw(st.sampled_from([True, True, False]))
    Ap, basep = (sv.Ap, sv.basep) if relative else (sv.A, np.zeros(sv.m))
    explicit = draw(st.booleans()) or not relative
    neutral = None
    if explicit:
        u = np.asarray(draw(gens.array((sv.n,), 0.3, 0.7, styles=("raw",))))
        nb = Ap @ (sv.lb + u * (sv.ub - sv.lb)) + basep
        neutral = (nb * draw(gens.log_uniform(0.1, 10.0))).tolist()
    k = draw(st.integers(1, 8))
    regime = draw(st.sampled_from(["inside", "mixed", "mixed", "outside"]))
    rows = []
    for _ in range(k):
        kind = draw(st.sampled_from({"inside": ["in"], "mixed": ["in", "in", "out", "zero", "neutral"], "outside": ["out", "out", "zero"]}[regime]))
        u = np.asarray(draw(gens.array((sv.n,), 0.1, 0.9, styles=("raw",))))
        b = Ap @ (sv.lb + u * (sv.ub - sv.lb)) + basep
        b = b / b.sum()
        if kind == "out":
            e = np.asarray(draw(gens.array((sv.m,), 0.0, 1.0, styles=("raw", "int", "sparse"))))
            e = e / e.sum() if e.sum() > 0 else np.eye(sv.m)[0]
            tau = draw(st.floats(0.3, 1.0))
            b = (1 - tau) * b + tau * e
        elif kind == "neutral":
            nn = np.ones(sv.m) if neutral is None else np.asarray(neutral)
            b = nn / nn.sum()
        if kind == "zero":
            rows.append(dict(b=[0.0] * sv.m, kind="zero"))
        else:
            # total capture of the target: ordinary, or very dim (1e-14 .. 1e-6: a dim target is not an all-zero one)
            rows.append(dict(b=(b * draw(st.one_of(gens.log_uniform(0.05, 50.0), gens.log_uniform(0.05, 50.0), gens.log_uniform(1e-14, 1e-6)))).tolist(), kind=kind))
    return dict(system=sysd, rows=rows, neutral=neutral, relative=relative, regime=regime)


def _name(B, what):
    """the documented alias (gamut_*) or the method itself (hull_*), chosen from the case content"""
    return ("gamut_" if int(abs(float(np.sum(B))) * 1e6) % 2 else "hull_") + what


def body_dist(case):
    sv = Sys(case["system"])
    rel = case["relative"]
    B = np.array([r["b"] for r in case["rows"]], dtype=float)
    int_targets = int(abs(float(np.sum(B))) * 1e6) % 5 == 0
    if int_targets:
        B = np.round(B * 40.0)                      # whole-number targets (counts), handed over as an integer-typed array below
    neutral = np.ones(sv.m) if case["neutral"] is None else np.asarray(case["neutral"], dtype=float)
    chat = neutral / neutral.sum()
    Ph = gamut_vertices(sv, rel)
    Ph = Ph / Ph.sum(axis=1, keepdims=True)
    full = np.linalg.matrix_rank(Ph - Ph.mean(0), tol=1e-9) == sv.m - 1
    if not full:
        return ["flat-chromatic-gamut-skipped"]
    # the domain of the property: neutral point inside the chromatic gamut (with margin)
    dn, _ = hull_dist(Ph, chat)
    tn = ray_factor(Ph, Ph.mean(0), chat)
    if dn > 1e-9 or tn is None or tn < 1.0 + 1e-3:
        return ["neutral-not-inside-skipped"]
    B0 = B.copy()
    with calling(f"gamut_dist_scaling(relative={rel})"):
        est = sv.make_estimator()
        with np.errstate(all="ignore"):
            # both scalings, the intensity one first (as in the documented work flow): queries do not change the registered system
            with unchanged("dist", estimator=est):
                getattr(est, _name(B, "l1_scaling"))(B, relative=rel)
                Barg = B.astype(np.int64) if int_targets else B
                out = getattr(est, _name(B, "dist_scaling"))(Barg, neutral_point=(None if case["neutral"] is None else neutral), relative=rel)
                again = getattr(est, _name(B, "dist_scaling"))(Barg, neutral_point=(None if case["neutral"] is None else neutral), relative=rel)
                as_float = getattr(est, _name(B, "dist_scaling"))(B, neutral_point=(None if case["neutral"] is None else neutral), relative=rel) if int_targets else out
    out = np.asarray(out, dtype=float)
    check(np.allclose(out, np.asarray(as_float, dtype=float), rtol=1e-12, atol=1e-300, equal_nan=True), "dist:integer-targets-differ",
          "whole-number targets handed over as an integer-typed array are scaled differently from the same numbers as floats")
    check(np.array_equal(out, np.asarray(again, dtype=float), equal_nan=True), "dist:second-call-differs", "the same call on the same estimator gives another result")
    check(np.array_equal(B, B0), "dist:input-modified", "caller's target array modified")
    check(out.shape == B.shape, "dist:shape", f"{out.shape}")
    if int(abs(float(np.sum(B))) * 1e6) % 6 == 0 and sv.m >= 3:
        # a large target set (an image): the same targets at the END of 65 573 rows that all have the neutral chromaticity
        # (never binding): their scaled versions are the ones of the small call
        fill = np.outer(np.linspace(0.5, 2.0, 65536 + 37), chat * max(float(np.max(B.sum(axis=1))), 1.0))
        with calling(f"dist scaling of {fill.shape[0] + B.shape[0]} targets"):
            with np.errstate(all="ignore"):
                big = np.asarray(getattr(est, _name(B, "dist_scaling"))(np.vstack([fill, B]), neutral_point=(None if case["neutral"] is None else neutral), relative=rel), dtype=float)
        check(big.shape == (fill.shape[0] + B.shape[0], sv.m), "dist:large-set-shape", f"{big.shape}")
        check(np.all(np.abs(big[-B.shape[0]:] - out) <= 1e-9 * (1.0 + np.abs(out))), "dist:depends-on-set-size",
              "targets scaled within a set of 65 573 targets (all others at the neutral chromaticity) differ from the same targets scaled alone")
    check(np.all(np.isfinite(out)), "dist:nonfinite", f"non-finite output {out.tolist()}")
    labs = sv.labels() + ["relative" if rel else "absolute", "explicit-neutral" if case["neutral"] is not None else "default-neutral", f"regime:{case['regime']}"] + (["int-typed-targets"] if int_targets else [])
    zero = np.all(B == 0, axis=1)
    nz = ~zero
    check(np.all(out[zero] == 0), "dist:zero-row-changed", "an all-zero target row did not stay zero")
    tot_in, tot_out = B.sum(axis=1), out.sum(axis=1)
    check(np.all(np.abs(tot_out - tot_in) <= 1e-9 * (np.abs(tot_in) + 1e-300)), "dist:total-changed", f"row totals changed: {tot_in.tolist()} -> {tot_out.tolist()}")
    if not np.any(nz):
        return labs + ["only-zero-rows"]
    Bh = B[nz] / tot_in[nz][:, None]
    Oh = out[nz] / tot_out[nz][:, None]
    # largest admissible common factor by LP
    ts = []
    for bh in Bh:
        if np.max(np.abs(bh - chat)) < 1e-12:
            ts.append(np.inf)
            continue
        t = ray_factor(Ph, chat, bh)
        ts.append(np.inf if t is None else t)
    t_min = float(np.min(ts))
    all_inside = t_min >= 1.0 - 1e-9
    # (e) common contraction along the hue direction
    d_in, d_out = Bh - chat, Oh - chat
    big = np.abs(d_in) > 1e-9
    if np.any(big):
        ratios = d_out[big] / d_in[big]
        alpha = float(np.median(ratios))
        check(np.all(np.abs(d_out - alpha * d_in) <= 1e-8), "dist:hue-or-common-factor",
              f"scaled chromaticities are not c + alpha (chromaticity - c) with one common alpha (alpha ~ {alpha:.6g})",
              observed=dict(alpha=alpha))
        if all_inside and t_min >= 1.0 + 1e-6:
            labs.append("all-inside")
            check(np.array_equal(out, B), "dist:inside-not-unchanged",
                  f"all chromaticities are already in the chromatic gamut (largest admissible factor {t_min:.6g} >= 1) but the targets were changed (alpha = {alpha:.9g})",
                  observed=dict(alpha=alpha, t_min=t_min))
            check(out is not B, "dist:same-object", "returned the caller's array instead of a copy")
        elif t_min < 1.0 - 1e-6:
            labs.append("nt:contracted")
            check(0 < alpha <= 1 + 1e-9, "dist:alpha-range", f"alpha = {alpha}")
            check(alpha <= t_min * (1 + 1e-5) + 1e-9, "dist:outside-chromatic-gamut",
                  f"common factor {alpha:.9g} exceeds the largest admissible one {t_min:.9g}: some chromaticity stays outside the chromatic gamut")
            check(alpha >= t_min * (1 - 1e-5) - 1e-9, "dist:not-largest-factor",
                  f"common factor {alpha:.9g} is smaller than the largest admissible one {t_min:.9g}")
            for oh in Oh[:6]:
                dd, _ = hull_dist(Ph, oh)
                check(dd <= 1e-7, "dist:outside-chromatic-gamut", f"a scaled chromaticity is at distance {dd:.3g} from the chromatic gamut")
        else:
            labs.append("band")
    if np.any(zero):
        labs.append("nt:zero-row")
    if np.any((tot_in > 0) & (tot_in < 1e-6)):
        labs.append("nt:dim-target")
    if sv.m == 2:
        labs.append("nt:dichromat")
    return labs


@st.composite
def l1_case(draw):
    sysd, x_mid = draw(adapted_system())
    sv = Sys(sysd)
    relative = draw(st.sampled_from([True, True, False]))
    basep = sv.basep if relative else np.zeros(sv.m)
    k = draw(st.integers(1, 8))
    R = np.asarray(draw(gens.array((k, sv.m), 0.0, 30.0, styles=("raw", "sparse")))).reshape(k, sv.m)
    if not np.any(R > 1e-3):       # at least one target clearly above the baseline (stated domain)
        R[0, 0] = 1.0
    return dict(system=sysd, B=(R + basep).tolist(), relative=relative)


def body_l1(case):
    sv = Sys(case["system"])
    rel = case["relative"]
    B = np.asarray(case["B"], dtype=float)
    Ap, basep = (sv.Ap, sv.basep) if rel else (sv.A, np.zeros(sv.m))
    B0 = B.copy()
    with calling(f"gamut_l1_scaling(relative={rel})"):
        est = sv.make_estimator()
        with unchanged("l1", estimator=est):
            out = np.asarray(getattr(est, _name(B, "l1_scaling"))(B, relative=rel), dtype=float)
            again = np.asarray(getattr(est, _name(B, "l1_scaling"))(B, relative=rel), dtype=float)
    check(np.array_equal(out, again, equal_nan=True), "l1:second-call-differs", "the same call on the same estimator gives another result")
    check(np.array_equal(B, B0), "l1:input-modified", "caller's target array modified")
    check(out.shape == B.shape and np.all(np.isfinite(out)), "l1:shape", f"{out.shape}")
    L_in, L_out = B - basep, out - basep
    # the common factor is read off the largest entry; the comparison is absolute on the scale of the arrays involved (the
    # subtraction of the baseline cancels digits of small light-induced parts)
    k = np.unravel_index(np.argmax(np.abs(L_in)), L_in.shape)
    f = float(L_out[k] / L_in[k])
    check(f > 0, "l1:factor-positive", f"factor {f}")
    scale = max(float(np.max(np.abs(out))), float(np.max(np.abs(B))) * max(f, 1.0))
    check(np.all(np.abs(L_out - f * L_in) <= 1e-9 * scale), "l1:common-factor", f"light-induced parts are not multiplied by one common factor (f ~ {f:.6g})")
    target_max = float(np.min(np.max(Ap * sv.ub, axis=1)))
    check(abs(np.max(L_out) - target_max) <= 1e-9 * target_max, "l1:largest-capture",
          f"largest light-induced capture is {np.max(L_out):.9g}, expected the smallest single-source maximum {target_max:.9g}")
    labs = sv.labels() + ["relative" if rel else "absolute", "nt:l1-scaling"]
    return labs


def pred_zero_row(case):
    return any(all(v == 0 for v in r["b"]) for r in case.get("rows", []))


def pred_absolute(case):
    return case.get("relative") is False


RULE = (
    "Hypothesis-generated systems with finite ub (2-4 receptors, 2-6 sources, lb zero/positive, baseline none/scalar/vector) adapted to an interior "
    "intensity (K = 1/(A x_mid + baseline)) so that the neutral point lies inside the chromatic gamut; default and explicit neutral points "
    "(chromaticity of another interior intensity); relative and absolute capture; target sets of 1-8 non-negative rows: chromaticities of interior "
    "intensities, mixtures towards the simplex corners (outside), the neutral direction itself, and all-zero rows, at intensities 0.05..50. "
    "Oracle: identities on totals / common factor / hue direction computed in L1-normalised coordinates, and the largest admissible common "
    "factor by LP (max t: c + t (chromaticity - c) in the hull of the normalised gamut vertices), membership by LP. Non-trivial = a contraction "
    "(some target outside the chromatic gamut), a dichromat, or a zero row; every L1-scaling case."
    " Both scalings run on one estimator, each twice, with the public state of the estimator byte-compared before and after."
    " A third of the distance-scaling targets are very dim (totals 1e-14..1e-6; non-trivial label dim-target)."
)

PROP = Prop(
    pid="C12",
    title="Gamut-corrective scalings keep hue and ratios and land in the chromatic gamut",
    rule=RULE,
    assumptions=["cases whose neutral point is not strictly inside the (full-dimensional) chromatic gamut are skipped and counted", "HiGHS LPs accurate to 1e-9 on normalised coordinates"],
    predicates={"zero_row": pred_zero_row, "absolute": pred_absolute},
    subs=[
        Sub("dist_scaling", dist_case(), body_dist, quick=800, thorough=40000, quick_shards=4, min_nt_share=0.2),
        Sub("l1_scaling", l1_case(), body_l1, quick=400, thorough=20000, quick_shards=2, min_nt_share=0.3),
    ],
)
