"""C15 — results are equivariant under a change of physical units."""
from __future__ import annotations

import math

import numpy as np
from hypothesis import strategies as st

from vlib import gens
from vlib.core import Prop, Sub, Violation, calling, check
from vlib.oracles import bvls, lp_dist, lp_margin
from vlib.systems import whole_number_bounds, Sys, matrix_system, target_rows

HIGH = dict(solver="CLARABEL", tol_gap_abs=1e-9, tol_gap_rel=1e-9, tol_feas=1e-9, max_iter=500)


def twin_system(sysd, s, c):
    """intensities in units s times larger (bounds / s, A * s), captures in units c times smaller (A, baseline, targets * c)."""
    t = dict(sysd)
    t["A"] = (np.asarray(sysd["A"], dtype=float) * (s * c)).tolist()
    t["lb"] = None if sysd.get("lb") is None else (np.asarray(sysd["lb"], dtype=float) / s).tolist()
    t["ub"] = None if sysd.get("ub") is None else (np.asarray(sysd["ub"], dtype=float) / s).tolist()
    b = sysd.get("baseline")
    t["baseline"] = None if b is None else (float(b) * c if np.ndim(b) == 0 else (np.asarray(b, dtype=float) * c).tolist())
    return t


@st.composite
def unit_factors(draw, sv: Sys):
    """(s, c, asserted): factors that keep both twins in the well-scaled regime (asserted) or span 1e-4..1e4 (stress)."""
    mode = draw(st.sampled_from(["assert", "assert", "assert", "stress"]))
    if mode == "stress":
        return draw(gens.log_uniform(1e-4, 1e4)), draw(gens.log_uniform(1e-4, 1e4)), False
    # bounds / s within [0.05, 10]
    ubs = sv.ub[np.isfinite(sv.ub)]
    s_lo, s_hi = 0.1, 10.0
    if ubs.size:
        s_lo, s_hi = float(np.max(ubs)) / 10.0, float(np.min(ubs)) / 0.05
    s_lo, s_hi = max(s_lo, 1e-2), min(s_hi, 1e2)
    if s_lo > s_hi:
        s_lo = s_hi = 1.0
    s = draw(gens.log_uniform(s_lo, s_hi)) if s_hi > s_lo * 1.0001 else s_lo
    # extent * c within [1, 100]
    c_lo, c_hi = 1.0 / max(float(np.min(sv.extent_i)), 1e-9), 100.0 / sv.extent
    c_lo, c_hi = max(c_lo, 1e-2), min(c_hi, 1e2)
    if c_lo > c_hi:
        c_lo = c_hi = 1.0
    c = draw(gens.log_uniform(c_lo, c_hi)) if c_hi > c_lo * 1.0001 else c_lo
    return s, c, True


# ------------------------------------------------------------------------------------------------


@st.composite
def hull_case(draw):
    cfg = draw(st.sampled_from(["bounded", "bounded", "unbounded", "flat", "one-receptor"]))
    if cfg == "one-receptor":
        # a single receptor: the gamut is an interval (its own code path).  Targets sit a relative 1e-10..1e-3 of the interval's
        # length inside or outside one of its ends - far above rounding, far below any fixed absolute slack once the unit changes
        # (added after seeded change S-C15-11)
        sysd = draw(matrix_system(m=(1, 1), n=(2, 5), ub_kinds=("finite",)))
        sv_ = Sys(sysd)
        ends = [float(np.sum(np.minimum(sv_.Ap[0] * sv_.lb, sv_.Ap[0] * sv_.ub)) + sv_.basep[0]), float(np.sum(np.maximum(sv_.Ap[0] * sv_.lb, sv_.Ap[0] * sv_.ub)) + sv_.basep[0])]
        rows = []
        for _ in range(draw(st.integers(2, 5))):
            e = draw(st.integers(0, 1))
            dlt = draw(gens.log_uniform(1e-10, 1e-3)) * (ends[1] - ends[0]) * draw(st.sampled_from([-1.0, 1.0]))
            rows.append(dict(b=[ends[e] + dlt], kind="interval-edge"))
        s, c, asserted = draw(unit_factors(sv_))
        return dict(system=sysd, rows=rows, s=s, c=c, asserted=asserted, cfg=cfg)
    if cfg == "bounded":
        sysd = draw(matrix_system(m=(2, 4), shape=draw(st.sampled_from(["exact", "under"])), surplus=(1, 2), ub_kinds=("finite",)))
    elif cfg == "unbounded":
        sysd = draw(matrix_system(m=(2, 4), n=(1, 5), ub_kinds=("inf",), lb_kinds=("pos", "pos", "zero")))
    else:
        sysd = draw(matrix_system(m=(3, 4), shape="over", ub_kinds=("finite",)))
    rows = draw(target_rows(sysd, ["interior", "interior", "near_in", "near_out", "outside", "vertex", "random", "below_lb", "below_lb"], nrows=(2, 6)))
    if cfg == "flat":
        # in the plane of the flat gamut, just beyond one source's maximum (0.01 % .. 1 % of its range)
        sv_ = Sys(sysd)
        for _ in range(draw(st.integers(1, 2))):
            x = sv_.lb + np.asarray(draw(gens.array((sv_.n,), 0.2, 0.8, styles=("raw",)))) * sv_.range
            j = draw(st.integers(0, sv_.n - 1))
            x[j] = sv_.ub[j] + draw(gens.log_uniform(1e-4, 1e-2)) * sv_.range[j]
            rows.append(dict(b=sv_.predict(x).tolist(), kind="slightly_over"))
    s, c, asserted = draw(unit_factors(Sys(sysd)))
    if cfg == "flat" and (not asserted or draw(st.booleans())):
        asserted = False
        c = draw(st.sampled_from([1e5, 1e6, 1e7])) / max(Sys(sysd).extent, 1e-9)     # large capture numbers
    return dict(system=sysd, rows=rows, s=s, c=c, asserted=asserted, cfg=cfg)


def body_hull(case):
    from dreye.api.convex import in_hull_from_A

    sv1 = Sys(case["system"])
    s, c = case["s"], case["c"]
    sv2 = Sys(twin_system(case["system"], s, c))
    B1 = np.array([r["b"] for r in case["rows"]], dtype=float)
    B2 = B1 * c
    with calling("in_hull_from_A (original units)"):
        g1 = np.asarray(in_hull_from_A(B1, sv1.A, **sv1.kwargs()))
    # gamut membership is pure geometry (no solver tolerances): asserted for every unit change, also far outside the well-scaled regime
    with calling(f"in_hull_from_A (units s={s:.3g}, c={c:.3g})"):
        g2 = np.asarray(in_hull_from_A(B2, sv2.A, **sv2.kwargs()))
    labs = sv1.labels() + [f"cfg:{case['cfg']}", "asserted" if case["asserted"] else "stress"]
    big = max(s, 1 / s, c, 1 / c)
    for r, b, a1, a2 in zip(case["rows"], B1, g1, g2):
        d, _ = lp_dist(sv1.Ap, sv1.basep, sv1.lb, sv1.ub, b)
        ext = max(sv1.extent, float(np.max(np.abs(b - sv1.basep))))
        t = lp_margin(sv1.Ap, sv1.basep, sv1.lb, sv1.ub, b) if sv1.bounded and sv1.n >= sv1.m else None
        clear_out = d >= 1e-6 * ext
        clear_in = (t is not None and t >= 1e-5) or (r["kind"] == "interior" and d <= 1e-9 * ext)
        if sv1.m == 1 and r["kind"] == "interval-edge":
            # exact interval arithmetic instead of the LP (whose tolerance is the 1e-6 band)
            lo = float(np.sum(np.minimum(sv1.Ap[0] * sv1.lb, sv1.Ap[0] * sv1.ub)) + sv1.basep[0])
            hi = float(np.sum(np.maximum(sv1.Ap[0] * sv1.lb, sv1.Ap[0] * sv1.ub)) + sv1.basep[0])
            tt = min(float(b[0]) - lo, hi - float(b[0])) / (hi - lo)
            clear_in, clear_out = tt >= 5e-11, tt <= -5e-11
            if clear_in or clear_out:
                check(bool(a1) == clear_in, "units:interval-membership", f"one-receptor gamut [{lo!r}, {hi!r}]: target {float(b[0])!r} ({tt:.3g} of the length {'inside' if clear_in else 'outside'}) reported {bool(a1)}",
                      observed=dict(b=b.tolist(), s=s, c=c))
                labs.append("nt:interval-edge")
        if not (clear_in or clear_out):
            labs.append("band")
            continue
        if True:
            check(bool(a1) == bool(a2), "units:membership-changes",
                  f"gamut membership of a target {'inside' if clear_in else 'outside'} (kind {r['kind']}) changes from {bool(a1)} to {bool(a2)} under the unit change s={s:.4g}, c={c:.4g} [{'/'.join(sv1.labels())}]",
                  observed=dict(b=b.tolist(), s=s, c=c))
            if big >= 3 and (r["kind"] in ("near_in", "near_out", "vertex") or (t is not None and t < 1e-3) or d < 1e-3 * ext):
                labs.append("nt:unit-change-near-boundary")
            elif big >= 3:
                labs.append("nt:unit-change")
    return labs


@st.composite
def range_case(draw):
    sysd = draw(matrix_system(m=(2, 4), shape="under", surplus=(1, 2), ub_kinds=("finite",), lb_kinds=("zero", "zero", "pos"), sub_cond=1e4))
    sysd, _whole = draw(whole_number_bounds(sysd))
    rows = draw(target_rows(sysd, ["interior", "interior", "facet", "vertex"], nrows=(1, 2)))
    s, c, asserted = draw(unit_factors(Sys(sysd)))
    return dict(system=sysd, rows=rows, s=s, c=c, asserted=asserted, n_spaced=draw(st.sampled_from([None, 2, 3, 5])))


def body_range(case):
    from dreye.api.convex import range_of_solutions

    sv1 = Sys(case["system"])
    s, c = case["s"], case["c"]
    sv2 = Sys(twin_system(case["system"], s, c))
    labs = sv1.labels() + ["asserted" if case["asserted"] else "stress"] + ([f"bounds:{case['system']['bounds_form']}"] if case["system"].get("bounds_form") else [])
    for r in case["rows"]:
        b = np.asarray(r["b"], dtype=float)
        out = []
        for sv, bb, what in ((sv1, b, "original"), (sv2, b * c, "twin")):
            try:
                with calling(f"range_of_solutions ({what} units)", allow=(ValueError,)):
                    out.append(range_of_solutions(bb, sv.A, **sv.kwargs()))
            except ValueError:
                out.append(None)
            except Violation:
                if case["asserted"] or what == "original":
                    raise
                out.append(None)
                labs.append("stress:exception")
        if out[0] is None or out[1] is None:
            boundary = r["kind"] in ("facet", "vertex")
            if case["asserted"] and not boundary:
                check((out[0] is None) == (out[1] is None), "units:range-rejection-changes", f"an in-gamut target is rejected in one unit system only (s={s:.4g}, c={c:.4g})")
            labs.append("rejected-boundary")
            continue
        (mn1, mx1), (mn2, mx2) = out
        rng = sv1.ub - sv1.lb
        ok = np.all(np.abs(np.asarray(mn2) * s - mn1) <= 1e-7 * rng) and np.all(np.abs(np.asarray(mx2) * s - mx1) <= 1e-7 * rng)
        if case["asserted"]:
            check(bool(ok), "units:range-not-equivariant",
                  f"range of solutions does not scale by 1/s: [{np.asarray(mn1).tolist()}, {np.asarray(mx1).tolist()}] vs s*[{(np.asarray(mn2) * s).tolist()}, {(np.asarray(mx2) * s).tolist()}] (s={s:.4g}, c={c:.4g}, kind {r['kind']})")
            labs.append("nt:range-equivariance" if max(s, 1 / s, c, 1 / c) >= 3 else "range-small-change")
            if case.get("n_spaced") and r["kind"] == "interior":
                # the evenly spaced solutions requested with n= are intensities too: they scale by exactly 1/s
                Xs = []
                for sv, bb, what in ((sv1, b, "original"), (sv2, b * c, "twin")):
                    with calling(f"range_of_solutions(n={case['n_spaced']}) ({what} units)"):
                        res = range_of_solutions(bb[None, :], sv.A, n=case["n_spaced"], **sv.kwargs())
                    Xs.append(np.asarray(res[2][0], dtype=float))
                check(Xs[0].shape == Xs[1].shape, "units:spaced-not-equivariant", f"{Xs[0].shape} vs {Xs[1].shape} spaced solutions in the two unit systems")
                dev = float(np.max(np.abs(Xs[1] * s - Xs[0]) / rng))
                check(dev <= 1e-6, "units:spaced-not-equivariant",
                      f"spaced solutions do not scale by 1/s: worst deviation {dev:.3g} of the bound range (s={s:.4g}, c={c:.4g}, n={case['n_spaced']})")
                labs.append("spaced")
        else:
            labs.append("stress:agree" if ok else "stress:disagree")
    return labs


@st.composite
def fit_case(draw):
    sysd = draw(matrix_system(m=(1, 4), shape="notunder", ub_kinds=("finite", "finite", "inf")))
    rows = draw(target_rows(sysd, ["interior", "outside", "scaled_out", "below", "random", "facet"], nrows=(1, 3)))
    s, c, asserted = draw(unit_factors(Sys(sysd)))
    m = len(sysd["A"])
    # weights are pure numbers: receptor weights, or "inverse" (1 / target, a relative error - unit-free by construction)
    W = draw(st.sampled_from(["none", "none", "vector", "inverse"]))
    if W == "vector":
        W = np.maximum(np.asarray(draw(gens.array((m,), 0.3, 3.0, styles=("raw",)))), 0.3).tolist()
    return dict(system=sysd, rows=rows, s=s, c=c, asserted=asserted, accuracy=draw(st.sampled_from(["high", "high", "default"])), W=W)


def body_fit(case):
    from dreye.api.optimize.lsq_linear import lsq_linear

    sv1 = Sys(case["system"])
    s, c = case["s"], case["c"]
    sv2 = Sys(twin_system(case["system"], s, c))
    B1 = np.array([r["b"] for r in case["rows"]], dtype=float)
    high = case["accuracy"] == "high"
    opt = dict(HIGH) if high else {}
    W = case.get("W", "none")
    if isinstance(W, str) and W == "inverse" and not np.all(B1 >= 0.05 * sv1.extent):
        W = "none"                      # relative errors need targets clearly above zero
    wlab = W if isinstance(W, str) else "vector"
    if not (isinstance(W, str) and W == "none"):
        opt["W"] = W if isinstance(W, str) else np.asarray(W, dtype=float)
    with calling(f"lsq_linear (original units, W={wlab})"):
        X1, P1 = lsq_linear(sv1.A, B1, return_pred=True, **sv1.kwargs(), **opt)
    try:
        with calling(f"lsq_linear (units s={s:.3g}, c={c:.3g}, W={wlab})"):
            X2, P2 = lsq_linear(sv2.A, B1 * c, return_pred=True, **sv2.kwargs(), **opt)
    except Violation:
        if case["asserted"]:
            raise
        return sv1.labels() + ["stress", "stress:exception"]
    X1, P1, X2, P2 = map(np.asarray, (X1, P1, X2, P2))
    labs = sv1.labels() + ["asserted" if case["asserted"] else "stress", f"acc:{case['accuracy']}", f"W:{wlab}"]
    cap = 2e-3 if high else 2e-2
    # the solver's accuracy refers to the WEIGHTED residual: a receptor weighted by w < 1 is resolved to cap / w only
    if isinstance(W, str) and W == "inverse":
        cap = cap * np.maximum(1.0, np.abs(B1))          # per entry: weight 1 / target
    elif not isinstance(W, str):
        cap = cap / float(min(1.0, np.min(np.asarray(W, dtype=float))))
    smin = float(np.linalg.svd(sv1.Ap, compute_uv=False)[min(sv1.Ap.shape) - 1])
    xtol = 4 * float(np.max(cap)) / max(smin, 1e-9)
    e1 = np.linalg.norm(P1 - B1, axis=1)
    e2 = np.linalg.norm(P2 - B1 * c, axis=1) / c
    ecap = 2 * (np.linalg.norm(np.broadcast_to(cap, B1.shape), axis=1) if np.ndim(cap) else cap)
    ok = bool(np.all(np.abs(P2 / c - P1) <= 2 * cap) and np.all(np.abs(e2 - e1) <= ecap) and np.all(np.abs(X2 * s - X1) <= xtol))
    if case["asserted"]:
        check(np.all(np.abs(P2 / c - P1) <= 2 * cap), "units:prediction-not-equivariant",
              f"predicted captures do not scale by c: {P1.tolist()} vs {(P2 / c).tolist()} (s={s:.4g}, c={c:.4g})")
        check(np.all(np.abs(e2 - e1) <= ecap), "units:error-not-equivariant", f"fit errors do not scale by c: {e1.tolist()} vs {e2.tolist()}")
        check(np.all(np.abs(X2 * s - X1) <= xtol), "units:intensities-not-equivariant",
              f"uniquely determined intensities do not scale by 1/s: {X1.tolist()} vs s*{(X2 * s).tolist()} (s={s:.4g}, c={c:.4g})")
        labs.append("nt:fit-equivariance" if max(s, 1 / s, c, 1 / c) >= 3 else "fit-small-change")
    else:
        labs.append("stress:agree" if ok else "stress:disagree")
    return labs


RULE = (
    "Hypothesis-generated systems/targets as in C03/C04/C06 with a twin (A*s*c, lb/s, ub/s, baseline*c, targets*c); unit factors s, c "
    "log-uniform either within the range that keeps both twins in the well-scaled regime (bounds in [0.05,10], extents in [1,100]; asserted, "
    "3/4 of the cases) or in [1e-4,1e4] (stress: discrepancies are only tallied as labels stress:agree / stress:disagree). Metamorphic "
    "relations: gamut membership identical for targets outside the boundary band (LP margin, scale-free) in bounded, unbounded and flat "
    "configurations; range-of-solution ends scale by 1/s (1e-7 of the range); uniquely determined fits (n_sources <= n_receptors): X*s, "
    "B_pred/c and error/c equal within the C04 tolerances. Non-trivial = an asserted unit change by a factor >= 3."
    " Spaced solutions (n in {2,3,5}) are compared across the unit change; a fifth of the range cases have whole-number bounds handed over as int64 arrays / lists of ints."
)

PROP = Prop(
    pid="C15",
    title="Results are equivariant under a change of physical units",
    rule=RULE,
    assumptions=["asserted only when both twins are in the well-scaled regime of C04, as the property states; stress pairs decide nothing"],
    subs=[
        Sub("membership", hull_case(), body_hull, quick=400, thorough=20000, quick_shards=4, min_nt_share=0.15),
        Sub("range_of_solutions", range_case(), body_range, quick=300, thorough=15000, quick_shards=4, min_nt_share=0.15),
        Sub("unique_fits", fit_case(), body_fit, quick=320, thorough=15000, quick_shards=8, min_nt_share=0.15),
    ],
)
