"""C05 — samples are fitted independently; batch size never changes or breaks a result."""
from __future__ import annotations

import os

import numpy as np
from hypothesis import strategies as st

from vlib import gens
from vlib.core import Prop, Sub, Violation, calling, check
from vlib.systems import Sys, matrix_system

HIGH = dict(solver="CLARABEL", tol_gap_abs=1e-9, tol_gap_rel=1e-9, tol_feas=1e-9, max_iter=500)
PROCS = ("gaussian", "poisson", "excitation", "minimize")
# comparison tolerance per procedure (capture units) with the high-accuracy pass-through: the Poisson likelihood is flat near
# its optimum (prediction error ~ sqrt(objective gap)), the excitation model is a bisection with SCS
# (a gap of 1e-8 at captures of ~30 allows a prediction error of sqrt(2*30*1e-8) ~ 8e-4)
TOLS = {"gaussian": 1e-4, "poisson": 5e-3, "minimize": 1e-4, "excitation": 2e-2}

FIXED = {
    "exact": dict(A=[[5.6, 1.4, 0.7], [1.4, 4.9, 1.4], [0.7, 2.1, 6.3]], lb=None, ub=[1.0, 2.0, 1.5]),
    "under": dict(A=[[6.0, 3.0, 1.0], [1.0, 4.0, 7.0]], lb=None, ub=[1.5, 1.0, 2.0]),
    "over": dict(A=[[7.0, 1.0], [3.0, 4.0], [1.0, 8.0]], lb=None, ub=[2.0, 1.5]),
}


def fixed_system(name, rich):
    d = dict(FIXED[name])
    m = len(d["A"])
    d["K"] = [1.2, 0.8, 1.5][:m] if rich else None
    d["baseline"] = [0.5, 1.0, 0.25][:m] if rich else None
    return d


def seeded_rows(sysd, n, seed, nonneg=True):
    """n distinct target rows, in- and out-of-gamut mixed (deterministic function of the seed)."""
    sv = Sys(sysd)
    rng = np.random.default_rng(seed)
    rows = []
    for i in range(n):
        x = sv.lb + rng.uniform(0.1, 0.9, sv.n) * sv.range
        b = sv.predict(x)
        if i % 2 == 1:   # push outside the gamut
            b = sv.basep + (b - sv.basep) * rng.uniform(1.5, 3.0) + rng.uniform(0.0, 0.5, sv.m) * sv.extent
        rows.append(np.maximum(b, 0.0) if nonneg else b)
    return np.array(rows)


def run_proc(proc, sv: Sys, B, W, batch_size, opt, entry="function"):
    """returns (X, Bp) for one fitting procedure, called as a function or through a ReceptorEstimator (which passes scalar
    adaptation / baseline values as one-element arrays)."""
    from dreye.api.optimize import lsq_linear as L

    kw = sv.kwargs()
    Wa = None if W is None else np.asarray(W, dtype=float)
    if entry == "estimator":
        est = sv.make_estimator()
        if Wa is not None:
            est.register_targets(np.array(B, dtype=float), W=Wa)
        if proc == "minimize":
            X, Bp, Bvar = est.minimize_variance(B, batch_size=batch_size, l2_eps=1e-3, **opt)
        else:
            X, Bp = est.fit(B, model=proc, batch_size=batch_size, **opt)
        return np.asarray(X), np.asarray(Bp)
    if proc in ("gaussian", "poisson"):
        X, Bp = L.lsq_linear(sv.A, B, W=Wa, batch_size=batch_size, model=proc, return_pred=True, **kw, **opt)
    elif proc == "excitation":
        X, Bp = L.lsq_linear_excitation(sv.A, B, W=Wa, batch_size=batch_size, return_pred=True, **kw, **opt)
    elif proc == "minimize":
        X, Bp, Bvar = L.lsq_linear_minimize(sv.A, B, None, W=Wa, batch_size=batch_size, return_pred=True, l2_eps=1e-3, **kw, **opt)
    else:
        raise ValueError(proc)
    return np.asarray(X), np.asarray(Bp)


def excitation_objective(B, Bp):
    e = lambda q: q / (1.0 + q)
    return np.max(np.abs(e(B) - e(Bp)), axis=-1)


def minimize_variance_value(sv, X):
    return (X ** 2 @ (sv.Ap ** 2).T).sum(axis=-1)


def compare(proc, sv, B, W, ref, got, tol, label, call_objective=0.0):
    Xr, Br = ref
    Xg, Bg = got
    check(Xg.shape == Xr.shape and Bg.shape == Br.shape, f"{label}:shape", f"shapes {Xg.shape}/{Bg.shape} vs {Xr.shape}/{Br.shape}")
    check(np.all(np.isfinite(Xg)), f"{label}:nonfinite", "non-finite intensities")
    if proc in ("gaussian", "poisson"):
        # the optimal prediction is unique (objective strictly convex in the prediction)
        err = np.abs(Bg - Br)
        if proc == "poisson":
            # flat likelihood: the prediction error allowed by an objective gap grows like sqrt(capture)
            tol = np.maximum(tol, 2e-3 * np.sqrt(np.maximum(np.abs(Br), 1.0)))
        else:
            # the solver's accuracy (1e-9) is relative to the objective of the whole stacked problem: a far out-of-gamut row in
            # the batch (residual ~100 capture units) leaves an objective gap of 1e-9 * 1e4, i.e. a prediction error of sqrt(gap)
            Wm_ = np.ones_like(B) if W is None else np.broadcast_to(np.asarray(W, dtype=float), B.shape)
            tol = max(tol, 3.0 * float(np.sqrt(1e-9 * (1.0 + max(float(np.sum((Wm_ * (Br - B)) ** 2)), call_objective)))))
        check(np.all(err <= tol), f"{label}:prediction-differs",
              f"{proc}: predicted captures differ from the batch_size=1 result by {err.max():.3g} (tol {float(np.min(tol)):.3g}); row {int(np.argmax(err.max(axis=1)))}",
              observed=dict(ref=Br.tolist(), got=Bg.tolist()))
        if sv.n <= sv.m:
            errx = np.abs(Xg - Xr)
            tolx = float(np.max(tol)) * 10 / max(1e-9, float(np.min(np.linalg.svd(sv.Ap, compute_uv=False))))
            check(np.all(errx <= tolx), f"{label}:intensities-differ", f"{proc}: unique intensities differ by {errx.max():.3g} (tol {tolx:.3g})")
    elif proc == "excitation":
        o_r, o_g = excitation_objective(B, Br), excitation_objective(B, Bg)
        check(np.all(np.abs(o_r - o_g) <= max(tol, 2e-3)), f"{label}:objective-differs",
              f"excitation: achieved objective differs from the batch_size=1 result: {o_g.tolist()} vs {o_r.tolist()}")
    else:
        # variance minimisation: same fit quality (within l2_eps + tol) and same minimal variance
        Wm = np.ones_like(B) if W is None else np.broadcast_to(np.asarray(W, dtype=float), B.shape)
        e_r = np.linalg.norm(Wm * (Br - B), axis=1)
        e_g = np.linalg.norm(Wm * (Bg - B), axis=1)
        # (stacked with a far out-of-gamut row the conic solver's accuracy refers to the scale of the whole call, as for the gaussian fit)
        stack_tol = 3.0 * float(np.sqrt(1e-9 * (1.0 + max(float(np.sum((Wm * (Br - B)) ** 2)), call_objective))))
        check(np.all(e_g <= e_r + 2e-3 + tol * 3 + stack_tol), f"{label}:fit-quality-differs", f"minimize: capture error {e_g.tolist()} vs {e_r.tolist()} for batch_size=1")
        v_r, v_g = minimize_variance_value(sv, Xr), minimize_variance_value(sv, Xg)
        check(np.all(np.abs(v_r - v_g) <= (tol * 5 + 2e-2) * (1 + np.abs(v_r))), f"{label}:variance-differs",
              f"minimize: summed variance {v_g.tolist()} vs {v_r.tolist()} for batch_size=1")


# ------------------------------------------------------------------------------------------------
# (i) exhaustive grid


def enum_grid(tier):
    N = 4 if tier == "quick" else 7
    seed = int(os.environ.get("VERIF_SEED", "1") or 1)
    cases = []
    for proc in PROCS:
        # the excitation model is a bisection of SCS solves (0.3-1 s each): smaller grid for it
        Np = N if proc != "excitation" else (2 if tier == "quick" else 4)
        for rich in (False, True):
            for name in (("exact", "under") if tier == "quick" else ("exact", "under", "over")):
                if proc == "excitation" and tier == "quick" and (name != "exact" or rich):
                    continue
                for n in range(1, Np + 1):
                    for bs in list(range(1, Np + 3)) + ["full", None]:
                        cases.append(dict(system=name, rich=rich, proc=proc, n=n, batch_size=bs, seed=seed))
    return cases


def body_grid(case):
    sysd = fixed_system(case["system"], case["rich"])
    sv = Sys(sysd)
    n, bs, proc = case["n"], case["batch_size"], case["proc"]
    B = seeded_rows(sysd, n, case["seed"] * 100 + 7)
    W = None
    if case["rich"]:
        W = np.random.default_rng(case["seed"] * 100 + 11).uniform(0.5, 2.0, (n, sv.m))
    opt = {} if proc == "excitation" else dict(HIGH)
    tol = TOLS[proc]
    # memory layout of the caller's arrays varies over the grid (C / Fortran / strided view): it must not matter
    layout = ("C", "F", "strided")[(n + (bs if isinstance(bs, int) else 0)) % 3]
    B = gens.with_layout(B, layout)
    if W is not None:
        W = gens.with_layout(W, layout)
    try:
        ref = run_proc(proc, sv, np.ascontiguousarray(B), None if W is None else np.ascontiguousarray(W), 1, opt)
    except Exception as e:  # the reference itself is C04/C07 territory: report it under its own label
        sfx = ":explicit-solver-unconverged" if (type(e).__name__ == "SolverError" and "solver" in opt) else ""
        raise Violation(f"grid:reference-exception:{type(e).__name__}{sfx}", f"{proc} with batch_size=1 raised {type(e).__name__}: {str(e)[:200]}")
    entry = "estimator" if (n + (bs if isinstance(bs, int) else 1)) % 3 == 0 else "function"
    with calling(f"{proc}(batch_size={bs!r}, n_samples={n}, entry {entry})"):
        got = run_proc(proc, sv, B, W, bs, opt, entry=entry)
    compare(proc, sv, B, W, ref, got, tol, "grid")
    labs = [proc, f"sys:{case['system']}", "rich" if case["rich"] else "plain", f"layout:{layout}", f"entry:{entry}"]
    bsi = n if bs == "full" else (1 if bs is None else bs)
    if bsi > n:
        labs.append("nt:batch-larger-than-n")
    elif bsi > 1 and n % bsi:
        labs.append("nt:padded-last-batch")
    elif bsi > 1:
        labs.append("nt:dividing-batch")
    else:
        labs.append("batch-one")
    return labs


# ------------------------------------------------------------------------------------------------
# (ii) generated systems, random grid cell, row operations


@st.composite
def rows_strategy(draw, sysd, n, nonneg=True):
    sv = Sys(sysd)
    rows = []
    for i in range(n):
        u = np.asarray(draw(gens.array((sv.n,), 0.05, 0.95, styles=("raw",))))
        b = sv.predict(sv.lb + u * sv.range)
        if draw(st.booleans()):
            b = sv.basep + (b - sv.basep) * draw(st.floats(1.3, 4.0)) + np.asarray(draw(gens.array((sv.m,), 0.0, 0.5, styles=("raw",)))) * sv.extent
        if draw(st.integers(0, 5)) == 0:
            b = sv.basep.copy()              # a dark frame: exactly the baseline, nothing to add (with lb > 0 still not "all sources off")
        rows.append((np.maximum(b, 0.0) if nonneg else b).tolist())
    return rows


@st.composite
def gen_case(draw):
    proc = draw(st.sampled_from(["gaussian", "gaussian", "gaussian", "poisson", "poisson", "minimize", "minimize", "minimize", "excitation"]))
    sysd = draw(matrix_system(m=(2, 4), n=(1, 5), ub_kinds=("finite",), lb_kinds=("zero", "zero", "pos"),
                              K_kinds=("none", "scalar", "vector"), base_kinds=("none", "scalar", "vector")))
    n = draw(st.integers(1, 5))
    rows = draw(rows_strategy(sysd, n))
    bs = draw(st.one_of(st.integers(1, n + 2), st.sampled_from(["full", None])))
    W = draw(st.one_of(st.none(), gens.array((n, len(sysd["A"])), 0.5, 2.0, styles=("raw",))))
    op = draw(st.sampled_from(["none", "permute", "duplicate", "drop", "append"]))
    perm = draw(st.permutations(list(range(n))))
    extra = draw(rows_strategy(sysd, 1))[0]
    k = draw(st.integers(0, n - 1))
    return dict(system=sysd, rows=rows, W=W, proc=proc, batch_size=bs, op=op, perm=list(perm), extra=extra, k=k,
                layout=draw(st.sampled_from(["C", "F", "strided"])), entry=draw(st.sampled_from(["function", "function", "estimator"])),
                verbose=draw(st.sampled_from([0, 0, 1])),
                # variance minimisation: the attainable error supplied by the caller as ONE number for all samples (norm=)
                norm=(draw(st.sampled_from([None, None, None, 1e4])) if proc == "minimize" else None))


def body_gen(case):
    sv = Sys(case["system"])
    proc, bs = case["proc"], case["batch_size"]
    B = np.asarray(case["rows"], dtype=float)
    n = B.shape[0]
    W = None if case["W"] is None else np.maximum(np.asarray(case["W"], dtype=float), 0.5)
    opt = {} if proc == "excitation" else dict(HIGH)
    if case.get("norm") is not None:
        opt["norm"] = float(case["norm"])
    tol = TOLS[proc]
    try:
        ref = run_proc(proc, sv, B, W, 1, opt)
    except Exception as e:
        sfx = ":explicit-solver-unconverged" if (type(e).__name__ == "SolverError" and "solver" in opt) else ""
        raise Violation(f"gen:reference-exception:{type(e).__name__}{sfx}", f"{proc} with batch_size=1 raised {type(e).__name__}: {str(e)[:200]}")
    # row operation applied to the targets (and their weights); the result rows must follow
    op = case["op"]
    idx = list(range(n))
    if op == "permute":
        idx = case["perm"]
    elif op == "duplicate":
        idx = idx + [case["k"]]
    elif op == "drop" and n > 1:
        idx = [i for i in idx if i != case["k"]]
    B2 = B[idx]
    W2 = None if W is None else W[idx]
    if op == "duplicate" and W2 is not None:
        # the repeated target carries other weights than its first occurrence: it is another row, not a copy
        W2 = W2.copy()
        W2[-1] = np.roll(W2[-1], 1) * 1.3
    if op == "append":
        B2 = np.vstack([B, np.asarray(case["extra"], dtype=float)[None, :]])
        W2 = None if W is None else np.vstack([W, np.ones((1, sv.m))])
    B2 = gens.with_layout(B2, case.get("layout"))
    W2 = None if W2 is None else gens.with_layout(W2, case.get("layout"))
    entry = case.get("entry", "function")
    vb = case.get("verbose", 0)
    with calling(f"{proc}(batch_size={bs!r}, n_samples={B2.shape[0]}, rows {op}, layout {case.get('layout')}, entry {entry}, verbose={vb})"):
        # verbose=1 iterates through a progress bar (silenced through TQDM_DISABLE): only the display may differ
        got = run_proc(proc, sv, B2, W2, bs, dict(opt, verbose=1) if vb else opt, entry=entry)
    # the accuracy of every row inside the call is the one of the whole call: its objective includes all rows' residuals (also the
    # appended / duplicated row's, which is not among the compared ones)
    Wc_ = np.ones_like(B2) if W2 is None else np.asarray(W2, dtype=float)
    call_obj = float(np.sum((Wc_ * (np.asarray(got[1], dtype=float) - B2)) ** 2)) if np.shape(got[1]) == B2.shape else 0.0
    if op == "append":
        got_cmp = (got[0][:n], got[1][:n])
        check(got[0].shape[0] == n + 1, "gen:shape", f"{got[0].shape[0]} result rows for {n + 1} targets")
        compare(proc, sv, B, W, ref, got_cmp, tol, "gen", call_objective=call_obj)
    elif op == "duplicate" and W2 is not None:
        keep = slice(0, len(idx) - 1)
        compare(proc, sv, B2[keep], W2[keep], (ref[0][idx[:-1]], ref[1][idx[:-1]]), (got[0][keep], got[1][keep]), tol, "gen", call_objective=call_obj)
    else:
        ref_cmp = (ref[0][idx], ref[1][idx])
        compare(proc, sv, B2, W2, ref_cmp, got, tol, "gen", call_objective=call_obj)
    # the last row fitted alone (with its own weights): a row's result depends on nothing else in the call
    if B2.shape[0] > 1:
        try:
            alone = run_proc(proc, sv, np.ascontiguousarray(B2[-1:]), None if W2 is None else np.ascontiguousarray(W2[-1:]), 1, opt)
        except Exception as e:
            sfx = ":explicit-solver-unconverged" if (type(e).__name__ == "SolverError" and "solver" in opt) else ""
            raise Violation(f"gen:reference-exception:{type(e).__name__}{sfx}", f"{proc} on a single row raised {type(e).__name__}: {str(e)[:200]}")
        compare(proc, sv, B2[-1:], None if W2 is None else W2[-1:], alone, (got[0][-1:], got[1][-1:]), tol, "gen:alone", call_objective=call_obj)
    labs = sv.labels() + [proc, f"op:{op}", "W" if W is not None else "noW", f"layout:{case.get('layout')}", f"entry:{entry}", f"verbose:{vb}"]
    m = B2.shape[0]
    bsi = m if bs == "full" else (1 if bs is None else bs)
    if bsi > m:
        labs.append("nt:batch-larger-than-n")
    elif bsi > 1 and m % bsi:
        labs.append("nt:padded-last-batch")
    elif bsi > 1:
        labs.append("nt:dividing-batch")
    if op != "none":
        labs.append("nt:row-operation")
    if np.any(np.all(B == sv.basep, axis=1)):
        labs.append("dark-row")
    return labs


def pred_bs_gt_n(case):
    bs = case.get("batch_size")
    n = case.get("n") or len(case.get("rows", []))
    return isinstance(bs, int) and bs > n


RULE = (
    "(i) Exhaustive grid: n_samples 1..N x batch_size {1..N+2, 'full', None} x procedure {gaussian, poisson, excitation, "
    "variance-minimisation} x {plain, K+baseline+per-sample weights} on fixed exactly-/under-/over-determined systems with in- and "
    "out-of-gamut rows mixed (N=4 quick, 7 thorough; target rows derived from VERIF_SEED). (ii) Hypothesis-generated well-scaled "
    "systems with a random grid cell and a row operation (permute/duplicate/drop/append) on targets and their per-sample weights. "
    "Oracle = metamorphic: the same call with batch_size=1; predicted captures compared (unique for gaussian/poisson), intensities "
    "when n_sources <= n_receptors, achieved objective for excitation, fit quality and summed variance for minimisation; 1e-5 with the "
    "high-accuracy CLARABEL pass-through (2e-2 for the SCS bisection of the excitation model). Any exception is a violation. "
    "Non-trivial = padded last batch, batch larger than the sample count, dividing batch > 1, or a row operation."
    " Both entry points (functions and ReceptorEstimator, which passes scalar K / baseline as one-element arrays); duplicated rows carry other per-sample weights; the last row of every call is compared with the same row fitted alone."
    " A sixth of the generated rows are dark (exactly the baseline); a third of the generated systems have positive lower bounds."
)

PROP = Prop(
    pid="C05",
    title="Samples are fitted independently; batch size never changes or breaks a result",
    rule=RULE,
    assumptions=["batch_size=1 is the reference behaviour (its own correctness is C04/C07/C09)", "CLARABEL with tight tolerances is deterministic and accurate to 1e-8 on these sizes"],
    predicates={"batch_larger_than_n": pred_bs_gt_n},
    subs=[
        Sub("grid", None, body_grid, enumerate_cases=enum_grid, quick=1, thorough=1, quick_shards=16, thorough_shards=16, min_nt_share=0.3),
        Sub("generated_rowops", gen_case(), body_gen, quick=240, thorough=20000, quick_shards=12, min_nt_share=0.3),
    ],
)
