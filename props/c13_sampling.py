"""C13 — samples drawn in the gamut are in the gamut, reproducible and uniform."""
from __future__ import annotations

import itertools
import math

import numpy as np
from hypothesis import strategies as st

from vlib import gens
from vlib.core import unchanged, Prop, Sub, Violation, calling, check
from vlib.oracles import _linprog, hull_dist, lp_dist
from vlib.systems import Sys, matrix_system

Z_MAX = 6.5   # |z| threshold: per-test false-alarm probability ~8e-11


def _dreye():
    import dreye
    return dreye


@st.composite
def cloud(draw, dmin=2, dmax=4, interior=True):
    d = draw(st.integers(dmin, dmax))
    k = draw(st.integers(d + 1, d + 8))
    P = np.asarray(draw(gens.array((k, d), -1.0, 1.0, styles=("raw",))), dtype=float).reshape(k, d)
    # make sure the cloud is full-dimensional: add a scaled simplex
    base = np.vstack([np.zeros(d), np.eye(d)]) * draw(st.floats(0.5, 2.0))
    P = np.vstack([P, base + P.mean(axis=0)])
    if interior and draw(st.booleans()):
        W = np.asarray(draw(gens.array((3, P.shape[0]), 0.05, 1.0, styles=("raw",)))).reshape(3, P.shape[0])
        P = np.vstack([P, (W / W.sum(axis=1, keepdims=True)) @ P])
    if draw(st.integers(0, 3)) == 0:
        # nearly collinear triple
        a, b = P[0], P[1]
        P = np.vstack([P, a + 0.5 * (b - a) + 1e-7 * (P[2] - a)])
    # anisotropic stretch up to 1e3 and an offset
    stretch = np.asarray([draw(st.sampled_from([1.0, 1.0, 10.0, 1e3, 1e-2])) for _ in range(d)])
    P = P * stretch + np.asarray(draw(gens.array((d,), -5.0, 5.0, styles=("raw", "int"))))
    # absolute size of the whole cloud (captures in small or large units): simplex volumes scale like size ** d
    P = P * draw(st.sampled_from([1.0, 1.0, 1.0, 1e-2, 1e-4, 1e-6, 1e3]))
    return P.tolist()


def facet_violation(P, X):
    """largest facet-inequality violation of the samples w.r.t. an independently computed hull, relative to the hull size."""
    from scipy.spatial import ConvexHull

    hull = ConvexHull(P)
    eq = hull.equations
    val = X @ eq[:, :-1].T + eq[:, -1]
    span = np.max(P.max(0) - P.min(0))
    return float(np.max(val)) / span, hull


@st.composite
def membership_case(draw):
    P = draw(cloud())
    n = draw(st.one_of(st.integers(1, 40), st.sampled_from([1, 2, 64, 100, 1000])))
    # engines by name, or as scipy QMCEngine objects of dimension d + 1 ("obj:<name>": a fresh, equally seeded object per call)
    engine = draw(st.sampled_from([None, None, "Halton", "Sobol", "LHC", "obj:Halton", "obj:Sobol", "obj:LHC"]))
    return dict(P=P, n=n, engine=engine, seed=draw(gens.seed_value()))


@st.composite
def large_case(draw):
    """n = 1e5 samples (the upper end of the stated range), all engines"""
    return dict(P=draw(cloud()), n=100000, engine=draw(st.sampled_from([None, "Halton", "Sobol", "LHC"])), seed=draw(gens.seed_value()))


def body_membership(case):
    dreye = _dreye()
    P = np.asarray(case["P"], dtype=float)
    n, engine, seed = case["n"], case["engine"], case["seed"]
    P0 = P.copy()

    def eng():
        if isinstance(engine, str) and engine.startswith("obj:"):
            from scipy.stats import qmc
            cls = {"Halton": qmc.Halton, "Sobol": qmc.Sobol, "LHC": qmc.LatinHypercube}[engine[4:]]
            return cls(P.shape[1] + 1, seed=seed)
        return engine

    with calling(f"sample_in_hull(engine={engine})"):
        with np.errstate(all="ignore"):
            X = np.asarray(dreye.sample_in_hull(P, n, seed=seed, engine=eng()))
            X2 = np.asarray(dreye.sample_in_hull(P, n, seed=seed, engine=eng()))
            X3 = np.asarray(dreye.sample_in_hull(P, n, seed=np.random.default_rng(seed), engine=eng()))
            X4 = np.asarray(dreye.sample_in_hull(P, n, seed=np.random.default_rng(seed), engine=eng()))
    # a whole-number cloud (lattice points 0..9) as int64 array / list of ints gives the samples of the same cloud as floats
    span0 = float(np.max(P.max(0) - P.min(0))) or 1.0
    Pi = np.unique(np.round((P - P.min(0)) / span0 * 9.0), axis=0)
    if Pi.shape[0] > P.shape[1] and np.linalg.matrix_rank(Pi[1:] - Pi[0]) == P.shape[1]:
        iform = ("int", "intlist")[seed % 2]
        with calling(f"sample_in_hull(whole-number cloud as {iform}, engine={engine})"):
            with np.errstate(all="ignore"):
                Xi = np.asarray(dreye.sample_in_hull(gens.as_form(Pi, iform), n, seed=seed, engine=eng()), dtype=float)
                Xf = np.asarray(dreye.sample_in_hull(Pi.copy(), n, seed=seed, engine=eng()), dtype=float)
        check(Xi.shape == Xf.shape and np.all(np.abs(Xi - Xf) <= 1e-9), "sample:integer-cloud-differs",
              f"cloud {Pi[:4].tolist()}.. given as {iform}: first sample {Xi[:1].tolist()}, given as floats: {Xf[:1].tolist()} (engine {engine})")
    check(np.array_equal(P, P0), "sample:input-modified", "point cloud modified")
    check(X.shape == (n, P.shape[1]), "sample:shape", f"requested {n} samples in {P.shape[1]}-D, got {X.shape} (engine {engine})")
    check(np.all(np.isfinite(X)), "sample:nonfinite", "non-finite samples")
    viol, hull = facet_violation(P, X)
    check(viol <= 1e-9, "sample:outside-hull", f"a sample violates a facet inequality by {viol:.3g} of the hull size (engine {engine})")
    # LP cross-check on a few samples
    span = np.max(P.max(0) - P.min(0))
    for x in X[: min(3, n)]:
        d, _ = hull_dist((P - P.min(0)) / span, (x - P.min(0)) / span)        # the LP's tolerances are absolute: cloud brought to size 1
        check(d <= 1e-8, "sample:not-a-convex-combination", f"sample at LP distance {d:.3g} (relative to the size of the hull) from the hull")
    check(np.array_equal(X, X2), "sample:seed-not-reproducible", f"same int seed gives different samples (engine {engine})")
    check(np.array_equal(X3, X4), "sample:generator-not-reproducible", f"generators in equal states give different samples (engine {engine})")
    labs = [f"d{P.shape[1]}", f"engine:{engine}", "n1" if n == 1 else ("n<=40" if n <= 40 else ("n>40" if n < 100000 else "nt:n=1e5"))]
    from scipy.spatial import Delaunay

    hv = P[hull.vertices]
    tri = Delaunay(hv)
    vols = np.abs(np.linalg.det(hv[tri.simplices][:, 1:] - hv[tri.simplices][:, :1]))
    if len(vols) >= 2 and vols.max() > 1.5 * vols.min() and len(hull.vertices) < P.shape[0]:
        labs.append("nt:interior-points-and-unequal-simplices")
    elif len(vols) >= 2 and vols.max() > 1.5 * vols.min():
        labs.append("nt:unequal-simplices")
    return labs


# ------------------------------------------------------------------------------------------------
# uniformity (default engine)


def clipped_volume(P, u, c):
    """volume of hull(P) intersected with {u.x <= c}, and the total volume (independent of the sampler)."""
    from scipy.spatial import ConvexHull

    hull = ConvexHull(P)
    V = P[hull.vertices]
    s = P @ u - c
    pts = [P[i] for i in hull.vertices if s[i] <= 0]
    for simplex in hull.simplices:
        for i, j in itertools.combinations(simplex, 2):
            if (s[i] < 0 < s[j]) or (s[j] < 0 < s[i]):
                t = s[i] / (s[i] - s[j])
                pts.append(P[i] + t * (P[j] - P[i]))
    pts = np.array(pts)
    if len(pts) <= P.shape[1]:
        return 0.0, hull.volume
    try:
        return ConvexHull(pts, qhull_options="QJ").volume, hull.volume
    except Exception:
        return None, hull.volume


@st.composite
def uniform_case(draw):
    if draw(st.integers(0, 2)) == 0:
        # the gamut of a system with more sources than receptors and whole-number captures: all corners of the bound box mapped
        # through an integer matrix (a zonotope: many coplanar hull points, exactly flat simplices in its triangulation)
        import itertools
        d_, n_ = draw(st.sampled_from([(3, 5), (3, 6), (4, 5), (4, 6)]))
        A_ = np.asarray(draw(gens.array((d_, n_), 0.0, 6.0, styles=("int",))), dtype=float).reshape(d_, n_) + np.eye(d_, n_)
        if np.linalg.matrix_rank(A_) < d_:
            A_ = A_ + 25.0 * np.eye(d_, n_)        # receptors with linearly dependent captures: a flat gamut, not in the domain
        P = (np.array(list(itertools.product([0.0, 1.0], repeat=n_))) @ A_.T).tolist()
    else:
        P = draw(cloud(dmax=3))
    d = len(P[0])
    dirs = draw(gens.array((4, d), -1.0, 1.0, styles=("raw",)))
    ws = draw(gens.array((4, len(P)), 0.05, 1.0, styles=("raw",)))
    # the requested count varies (uniformity holds for any count; a size-dependent fast path must be as uniform as the
    # ordinary one - added after seeded change S-C13-11, which switched the weight draw above n = 20000)
    return dict(P=P, dirs=dirs, ws=ws, seed=draw(gens.seed_value()), n=draw(st.sampled_from([20000, 20000, 8000, 20001, 32768, 50000])))


def body_uniform(case):
    dreye = _dreye()
    P = np.asarray(case["P"], dtype=float)
    n = case["n"]
    if np.linalg.matrix_rank(P[1:] - P[0], tol=1e-9 * max(1.0, float(np.max(np.abs(P))))) < P.shape[1]:
        return ["flat-cloud-skipped"]            # the property is about full-dimensional hulls (2-4 dimensions)
    with calling(f"sample_in_hull(n={n})"):
        X = np.asarray(dreye.sample_in_hull(P, n, seed=case["seed"]))
    check(X.shape == (n, P.shape[1]), "uniform:shape", f"{X.shape}")
    # normalise the cloud for the geometry (affine maps preserve uniformity and volume ratios)
    mu, sd = P.mean(0), P.std(0) + 1e-300
    Pn, Xn = (P - mu) / sd, (X - mu) / sd
    labs = [f"d{P.shape[1]}", "n<=20000" if n <= 20000 else "n>20000"]
    tested = 0
    for u, w in zip(np.asarray(case["dirs"], dtype=float), np.asarray(case["ws"], dtype=float)):
        if np.linalg.norm(u) < 1e-3:
            continue
        u = u / np.linalg.norm(u)
        c = float((w / w.sum()) @ Pn @ u)          # plane through an interior point
        vc, vt = clipped_volume(Pn, u, c)
        if vc is None or vt <= 0:
            continue
        p = vc / vt
        if not (0.03 <= p <= 0.97):
            continue
        k = int(np.sum(Xn @ u <= c))
        z = (k - n * p) / math.sqrt(n * p * (1 - p))
        tested += 1
        check(abs(z) <= Z_MAX, "uniform:half-space-count",
              f"{k} of {n} samples fall in a region holding {p:.4f} of the volume (expected {n * p:.0f}, z = {z:.1f}): not uniform",
              observed=dict(k=k, p=p, z=z))
    # centroid test per coordinate against the exact centroid of the hull (volume-weighted simplex centroids)
    from scipy.spatial import ConvexHull, Delaunay

    hv = Pn[ConvexHull(Pn).vertices]
    tri = Delaunay(hv)
    S = hv[tri.simplices]
    vols = np.abs(np.linalg.det(S[:, 1:] - S[:, :1]))
    cen = (S.mean(axis=1) * vols[:, None]).sum(0) / vols.sum()
    sdx = Xn.std(0)
    z = (Xn.mean(0) - cen) / (sdx / math.sqrt(n) + 1e-300)
    check(np.all(np.abs(z) <= Z_MAX + 1.5), "uniform:centroid", f"sample mean deviates from the hull centroid: z = {z.tolist()}")
    if tested:
        labs.append("nt:volume-fraction-tested")
    if len(vols) >= 2 and vols.max() > 1.5 * vols.min():
        labs.append("unequal-simplices")
    return labs


@st.composite
def small_requests_case(draw):
    c = draw(uniform_case())
    c.update(n=draw(st.sampled_from([1, 1, 2, 3])), calls=1500)
    return c


def body_small_requests(case):
    """uniformity also holds for many small requests with different seeds taken together (n = 1, 2, 3: a sample is a random
    point of the gamut, not a function of the request size): pooled over consecutive seeds and tested like one large request"""
    dreye = _dreye()
    P = np.asarray(case["P"], dtype=float)
    n, calls, s0 = case["n"], case["calls"], case["seed"] % (2 ** 30)
    if np.linalg.matrix_rank(P[1:] - P[0], tol=1e-9 * max(1.0, float(np.max(np.abs(P))))) < P.shape[1]:
        return ["flat-cloud-skipped"]            # the property is about full-dimensional hulls (2-4 dimensions)
    with calling(f"sample_in_hull(n={n}) x {calls} seeds"):
        X = np.vstack([np.asarray(dreye.sample_in_hull(P, n, seed=s0 + i)).reshape(n, P.shape[1]) for i in range(calls)])
    N = X.shape[0]
    mu, sd = P.mean(0), P.std(0) + 1e-300
    Pn, Xn = (P - mu) / sd, (X - mu) / sd
    labs = [f"d{P.shape[1]}", f"n{n}"]
    for u, w in zip(np.asarray(case["dirs"], dtype=float), np.asarray(case["ws"], dtype=float)):
        if np.linalg.norm(u) < 1e-3:
            continue
        u = u / np.linalg.norm(u)
        c = float((w / w.sum()) @ Pn @ u)
        vc, vt = clipped_volume(Pn, u, c)
        if vc is None or vt <= 0:
            continue
        p = vc / vt
        if not (0.05 <= p <= 0.95):
            continue
        k = int(np.sum(Xn @ u <= c))
        z = (k - N * p) / math.sqrt(N * p * (1 - p))
        check(abs(z) <= Z_MAX, "uniform:small-requests", f"{k} of {N} samples pooled from {calls} requests of n={n} fall in a region holding {p:.4f} of the volume (z = {z:.1f})",
              observed=dict(k=k, p=p, z=z))
        labs.append("nt:pooled-volume-fraction-tested")
        break
    return labs


# ------------------------------------------------------------------------------------------------
# estimator level, with and without l1


@st.composite
def est_case(draw):
    sysd = draw(matrix_system(m=(2, 4), n=(2, 5), ub_kinds=("finite", "finite", "inf"), K_kinds=("none", "scalar", "vector"),
                              base_kinds=("none", "scalar", "vector")))
    return dict(system=sysd, n=draw(st.integers(1, 30)), engine=draw(st.sampled_from([None, None, "Halton", "Sobol", "LHC"])),
                seed=draw(gens.seed_value()), use_l1=draw(st.booleans()), l1_t=draw(st.one_of(st.floats(0.15, 0.85), gens.log_uniform(0.003, 0.15))),
                relative=draw(st.sampled_from([True, True, False])))


def body_est(case):
    sv = Sys(case["system"])
    n, engine, seed, rel = case["n"], case["engine"], case["seed"], case["relative"]
    Ap, basep = (sv.Ap, sv.basep) if rel else (sv.A, np.zeros(sv.m))
    if sv.n < sv.m:
        return ["flat-gamut-skipped"]       # the property is about full-dimensional gamuts (point clouds in 2-4 dimensions)
    ub_eff = np.where(np.isfinite(sv.ub), sv.ub, sv.lb + 1.0)   # documented: unbounded sources are sampled on [lb, lb + 1]
    l1 = None
    if case["use_l1"]:
        if not sv.bounded:
            return ["l1-unbounded-skipped"]
        V = np.array([np.where(np.array(bits) == 1, sv.ub, sv.lb) for bits in itertools.product([0, 1], repeat=sv.n)])
        sums = (V @ Ap.T + basep).sum(axis=1)
        l1 = float(sums.min() + case["l1_t"] * (sums.max() - sums.min()))
        if not np.all(V @ Ap.T + basep >= 0) or l1 <= 0:
            return ["negative-captures-skipped"]
    with calling(f"ReceptorEstimator.sample_in_hull(l1={'yes' if l1 else 'no'}, engine={engine})"):
        est = sv.make_estimator()
        with np.errstate(all="ignore"):
            with unchanged("est", estimator=est):
                X = np.asarray(getattr(est, "sample_in_gamut" if seed % 2 else "sample_in_hull")(n=n, seed=seed, engine=engine, l1=l1, relative=rel))
            X2 = np.asarray(est.sample_in_gamut(n=n, seed=seed, engine=engine, l1=l1, relative=rel))
    check(X.shape == (n, sv.m), "est:shape", f"requested {n} samples of {sv.m} receptors, got {X.shape}")
    check(np.array_equal(X, X2), "est:seed-not-reproducible", "same seed gives different samples")
    labs = sv.labels() + [f"engine:{engine}", "l1" if l1 else "no-l1", "relative" if rel else "absolute"]
    ext = float(np.max(np.abs(Ap) @ (ub_eff - sv.lb))) or 1.0
    if l1 is not None:
        tot = X.sum(axis=1)
        check(np.all(np.abs(tot - l1) <= 1e-9 * abs(l1)), "est:l1-total", f"samples have totals {tot[:3].tolist()} instead of {l1}")
        labs.append("nt:l1-slice")
    worst = 0.0
    for x in X[: min(n, 12)]:
        d, _ = lp_dist(Ap, basep, sv.lb, ub_eff, x)
        worst = max(worst, d)
    check(worst <= 1e-8 * ext, "est:sample-outside-gamut" + (":l1" if l1 is not None else ""),
          f"a sample is not reproducible by in-bound intensities (distance {worst:.3g}, gamut extent {ext:.3g}; l1={l1})",
          observed=dict(l1=l1))
    if l1 is None:
        labs.append("nt:gamut-sample")
    if engine is None:
        # coverage: uniform samples reach every corner region of the sampled set.  For a convex body of dimension k the cap of relative
        # depth t below its extreme point in any direction holds at least t^k of the volume (the body shrunk by t about that point),
        # so 400 independent uniform samples miss it with probability (1 - t^k)^400 < 1e-12 for t = 0.067^(1/k).
        k = sv.m - (1 if l1 is not None else 0)
        if k >= 1:
            with calling(f"ReceptorEstimator.sample_in_hull(n=400, l1={'yes' if l1 else 'no'})"):
                with np.errstate(all="ignore"):
                    Xc = np.asarray(est.sample_in_hull(n=400, seed=seed, l1=l1, relative=rel))
            t = 0.067 ** (1.0 / k)
            A_eq = None if l1 is None else Ap.sum(axis=0)[None, :]
            b_eq = None if l1 is None else [l1 - float(basep.sum())]
            bnds = [(float(a), float(b)) for a, b in zip(sv.lb, ub_eff)]
            for i in range(sv.m):
                lo_r = _linprog(Ap[i], A_eq=A_eq, b_eq=b_eq, bounds=bnds)
                hi_r = _linprog(-Ap[i], A_eq=A_eq, b_eq=b_eq, bounds=bnds)
                if lo_r.status != 0 or hi_r.status != 0:
                    labs.append("coverage-lp-failed")
                    continue
                lo, hi = float(lo_r.fun) + basep[i], -float(hi_r.fun) + basep[i]
                w = hi - lo
                if w <= 1e-6 * ext:
                    continue
                check(Xc[:, i].max() >= hi - t * w - 1e-9 * ext, "est:coverage" + (":l1" if l1 is not None else ""),
                      f"none of 400 uniform samples has receptor {i} above {hi - t * w:.6g} although the sampled set reaches {hi:.6g} (lowest {lo:.6g}; l1={l1})")
                check(Xc[:, i].min() <= lo + t * w + 1e-9 * ext, "est:coverage" + (":l1" if l1 is not None else ""),
                      f"none of 400 uniform samples has receptor {i} below {lo + t * w:.6g} although the sampled set reaches {lo:.6g} (highest {hi:.6g}; l1={l1})")
            labs.append("nt:coverage-checked")
    return labs


RULE = (
    "Hypothesis-generated point clouds in 2-4 dimensions (random points + a simplex, optional interior points, nearly collinear triples, per-axis "
    "stretch up to 1e3, offsets), n in 1..1000, engines None/Halton/Sobol/LHC, int seeds and Generator objects; estimator systems with and "
    "without l1 (placed inside the achievable range of totals), relative and absolute capture. Oracles: facet inequalities of an "
    "independently computed hull for every sample, convex-combination / reproducibility LPs for a subset, exact repetition for seeds, and "
    "for uniformity (default engine, n=20000): exact volume fraction of hull intersected with up to 4 random half-spaces vs the observed "
    "count (normal approximation of the binomial, |z|<=6.5, per-test false-alarm ~8e-11) plus a centroid z-test. Non-trivial = hull with "
    "simplices of unequal volume (and interior points), a tested volume fraction, an l1 slice or a gamut sample checked by LP."
    " Clouds carry an absolute size factor in {1e-6,1e-4,1e-2,1,1e3}."
    " Estimator level: l1 down to 0.3 % of the range of totals; with the default engine 400 further samples must reach the corner region (relative depth 0.067^(1/k)) of every receptor axis' LP extent (miss probability < 1e-12)."
    " Function level: the cloud snapped to a 0..9 lattice is sampled as int64 array / list of ints and as floats: equal samples."
)

PROP = Prop(
    pid="C13",
    title="Samples drawn in the gamut are in the gamut, reproducible and uniform",
    rule=RULE,
    assumptions=["uniformity is decided by seeded statistical tests with a family-wise false-alarm budget below 1e-6 per run; a 1 % bias is not detectable",
                 "unbounded sources are sampled on [lb, lb+1] as documented in get_P_from_A"],
    subs=[
        Sub("membership_seed", membership_case(), body_membership, quick=600, thorough=30000, quick_shards=4, min_nt_share=0.2),
        Sub("small_requests", small_requests_case(), body_small_requests, quick=24, thorough=600, quick_shards=8, min_nt_share=0.3),
        Sub("uniformity", uniform_case(), body_uniform, quick=64, thorough=2500, quick_shards=8, min_nt_share=0.3),
        Sub("estimator_l1", est_case(), body_est, quick=400, thorough=20000, quick_shards=4, min_nt_share=0.3),
        Sub("large_n", large_case(), body_membership, quick=4, thorough=64, quick_shards=4, thorough_shards=16, min_nt_share=0.0),
    ],
)
