"""C18 — gamut-size and divergence metrics equal their geometric/information definitions."""
from __future__ import annotations

import math

import numpy as np
from hypothesis import strategies as st

from vlib import gens
from vlib.core import Prop, Sub, Violation, calling, check
from vlib.systems import build_estimator, estimator_system


def _dreye():
    import dreye
    return dreye


def orthonormal(raw):
    """orthogonal matrix from the QR decomposition of a drawn matrix (sign-fixed)."""
    Q, R = np.linalg.qr(np.asarray(raw, dtype=float))
    return Q * np.sign(np.where(np.diag(R) == 0, 1.0, np.diag(R)))


@st.composite
def shape_case(draw):
    """a cloud with a known volume: simplex, box or general cloud of intrinsic dimension r embedded in d >= r dimensions."""
    d = draw(st.integers(1, 5))
    r = draw(st.integers(1, d))
    kind = draw(st.sampled_from(["simplex", "box", "cloud", "cloud"]))
    if kind == "simplex":
        V = np.asarray(draw(gens.array((r + 1, r), -3.0, 3.0, styles=("raw", "int")))).reshape(r + 1, r)
        Y = V
    elif kind == "box":
        sides = np.asarray(draw(gens.array((r,), 0.5, 4.0, styles=("raw", "int"))))
        sides = np.maximum(sides, 0.5)
        corners = np.array(np.meshgrid(*[[0.0, s] for s in sides], indexing="ij")).reshape(r, -1).T
        Y = corners
    else:
        k = draw(st.integers(r + 2, r + 9))
        Y = np.asarray(draw(gens.array((k, r), -3.0, 3.0, styles=("raw",)))).reshape(k, r)
    # thin but unambiguous extents along some intrinsic axes (aspect ratios down to 1e-4): the affine dimension stays r
    if r >= 2 and draw(st.booleans()):
        Y = Y * np.asarray([draw(st.sampled_from([1.0, 1.0, 1e-1, 1e-2, 1e-3, 1e-4])) for _ in range(r)])
    # interior extras (do not change the hull)
    if draw(st.booleans()) and Y.shape[0] >= 2:
        W = np.asarray(draw(gens.array((2, Y.shape[0]), 0.1, 1.0, styles=("raw",)))).reshape(2, Y.shape[0])
        Y = np.vstack([Y, (W / W.sum(1, keepdims=True)) @ Y])
    basis = orthonormal(draw(gens.array((d, d), -1.0, 1.0, styles=("raw",))) if d > 1 else [[1.0]])
    offset = np.asarray(draw(gens.array((d,), -5.0, 5.0, styles=("raw", "int"))))
    X = Y @ basis[:r, :] + offset
    rot = orthonormal(draw(gens.array((d, d), -1.0, 1.0, styles=("raw",))) if d > 1 else [[1.0]])
    return dict(Y=Y.tolist(), X=X.tolist(), d=d, r=r, kind=kind, rot=rot.tolist(), shift=draw(gens.array((d,), -10.0, 10.0, styles=("raw",))),
                lam=draw(gens.log_uniform(1e-3, 1e3)), seed=draw(gens.seed_value()),
                extra=draw(gens.array((2, r), -4.0, 4.0, styles=("raw",))))


def intrinsic_volume(Y):
    """r-dimensional volume of hull(Y) for Y in its own r-dimensional coordinates: sum of |det|/r! over a Delaunay triangulation."""
    Y = np.asarray(Y, dtype=float)
    r = Y.shape[1]
    if r == 1:
        return float(Y.max() - Y.min())
    from scipy.spatial import Delaunay

    try:
        tri = Delaunay(Y)
    except Exception:
        return None
    S = Y[tri.simplices]
    return float(np.sum(np.abs(np.linalg.det(S[:, 1:] - S[:, :1]))) / math.factorial(r))


def body_volume(case):
    dreye = _dreye()
    Y = np.asarray(case["Y"], dtype=float)
    X = np.asarray(case["X"], dtype=float)
    d, r = case["d"], case["r"]
    vol = intrinsic_volume(Y)
    # need a genuinely r-dimensional, not too skewed, shape (otherwise its affine rank is a matter of tolerance)
    sv = np.linalg.svd(Y - Y.mean(0), compute_uv=False)
    # compute_volume treats a cloud as a single point when np.allclose(X, X[0]) (relative tolerance 1e-5 of the coordinates):
    # clouds smaller than 1e-3 of their distance from the origin are outside the explored domain (DESIGN 8.6)
    if vol is None or sv[min(r, len(sv)) - 1] < 1e-6 * sv[0] or vol < 1e-30 or sv[0] < 1e-3 * (1.0 + float(np.max(np.abs(X))) + float(np.max(np.abs(case["shift"])))):
        return ["degenerate-shape-skipped"]
    X0 = X.copy()
    with calling("compute_volume"):
        with np.errstate(all="ignore"):
            v = float(dreye.compute_volume(X if d > 1 else X[:, 0]))
    check(np.array_equal(X, X0), "volume:input-modified", "input modified")
    labs = [f"d{d}", f"r{r}", case["kind"], "flat" if r < d else "fulldim"]
    check(abs(v - vol) <= 1e-7 * vol, "volume:value", f"volume {v!r} of a {case['kind']} of intrinsic dimension {r} in {d}-D, expected {vol!r}",
          observed=dict(got=v, expected=vol))
    rot, shift, lam = np.asarray(case["rot"]), np.asarray(case["shift"]), case["lam"]
    with calling("compute_volume (moved)"):
        with np.errstate(all="ignore"):
            v_t = float(dreye.compute_volume(X + shift if d > 1 else (X + shift)[:, 0]))
            v_r = float(dreye.compute_volume(X @ rot.T if d > 1 else X[:, 0]))
            v_s = float(dreye.compute_volume(X * lam if d > 1 else (X * lam)[:, 0]))
    check(abs(v_t - vol) <= 1e-7 * vol, "volume:translation", f"volume changes under translation: {v} -> {v_t}")
    check(abs(v_r - vol) <= 1e-7 * vol, "volume:rotation", f"volume changes under rotation: {v} -> {v_r} (intrinsic dimension {r} in {d}-D)")
    check(abs(v_s - vol * lam ** r) <= 1e-6 * vol * lam ** r, "volume:homogeneity", f"volume({lam} X) = {v_s}, expected lam^{r} * {vol} = {vol * lam ** r}")
    # adding points never decreases the volume (points added inside the same affine span)
    basis_rows = np.linalg.lstsq(Y - Y.mean(0), X - X.mean(0), rcond=None)[0]      # r x d map from intrinsic to ambient
    extra = (np.asarray(case["extra"]) - Y.mean(0)) @ basis_rows + X.mean(0)
    with calling("compute_volume (superset)"):
        with np.errstate(all="ignore"):
            v_sup = float(dreye.compute_volume(np.vstack([X, extra]) if d > 1 else np.vstack([X, extra])[:, 0]))
    check(v_sup >= vol * (1 - 1e-7), "volume:monotone", f"volume decreases when points are added: {vol} -> {v_sup}")
    if r < d:
        labs.append("nt:flat-cloud")
    else:
        labs.append("nt:closed-form" if case["kind"] != "cloud" else "nt:triangulated")
    return labs


def exact_mean_width(Y, kind):
    """exact mean width where a closed form exists: 2-D perimeter/pi, segments, boxes."""
    r = Y.shape[1]
    if r == 1:
        return None
    if r == 2:
        from scipy.spatial import ConvexHull

        h = ConvexHull(Y)
        V = Y[h.vertices]
        per = float(np.sum(np.linalg.norm(V - np.roll(V, -1, axis=0), axis=1)))
        return per / math.pi
    return None


def body_width(case):
    dreye = _dreye()
    Y = np.asarray(case["Y"], dtype=float)
    X = np.asarray(case["X"], dtype=float)
    d, r, seed = case["d"], case["r"], case["seed"]
    if d < 2:
        return ["one-dimensional-skipped"]
    svals = np.linalg.svd(Y - Y.mean(0), compute_uv=False)
    if svals[0] < 1e-6 or svals[min(r, len(svals)) - 1] < 1e-6 * svals[0]:
        return ["degenerate-shape-skipped"]
    n = 4000
    with calling("compute_mean_width"):
        w1 = float(dreye.compute_mean_width(X, n=n, seed=seed))
        w2 = float(dreye.compute_mean_width(X, n=n, seed=seed))
        wv = float(dreye.compute_mean_width(X, n=n, seed=seed, vectorized=True))
        wt = float(dreye.compute_mean_width(X + np.asarray(case["shift"]), n=n, seed=seed))
        ws = float(dreye.compute_mean_width(X * case["lam"], n=n, seed=seed))
        wr = float(dreye.compute_mean_width(X @ np.asarray(case["rot"]).T, n=n, seed=seed))
        extra = X.mean(0) + np.asarray(case["extra"]).sum() * (X[0] - X.mean(0))
        wsup = float(dreye.compute_mean_width(np.vstack([X, extra[None, :]]), n=n, seed=seed))
    diam = float(np.max(np.linalg.norm(X[:, None, :] - X[None, :, :], axis=-1)))
    scale = diam + 1e-300
    # the options are implementation choices (loop / vectorised, centring the data first): all four combinations give the same
    # number for the same seed, also for the shifted cloud; one case in eight uses many directions (n * points > 2**20)
    n_opt = n if seed % 8 != 3 else int(2 ** 20 // X.shape[0]) + 1500
    with calling(f"compute_mean_width (options, n={n_opt})"):
        combos = {(v, c): float(dreye.compute_mean_width(X + np.asarray(case["shift"]), n=n_opt, seed=seed, vectorized=v, center=c))
                  for v in ((False, True) if n_opt == n else (True,)) for c in (False, True)}
        ref_opt = float(dreye.compute_mean_width(X, n=n_opt, seed=seed, vectorized=True))
    for (v, c), val in combos.items():
        check(abs(val - ref_opt) <= 1e-9 * (scale + np.max(np.abs(case["shift"]))), "width:option-dependence",
              f"compute_mean_width(vectorized={v}, center={c}, n={n_opt}) of the shifted cloud = {val}, of the cloud = {ref_opt}")
    # whole-number coordinates: the same cloud as int64 array / list of ints and as floats has the same width, for every option
    Xi = np.round((X - X.min(0)) / scale * 7.0)
    if len(np.unique(Xi, axis=0)) >= 2:
        iform = ("int", "intlist")[seed % 2]
        with calling(f"compute_mean_width (whole-number cloud as {iform})"):
            for v in (False, True):
                for c in (False, True):
                    wi = float(dreye.compute_mean_width(gens.as_form(Xi, iform), n=n, seed=seed, vectorized=v, center=c))
                    wf = float(dreye.compute_mean_width(Xi.copy(), n=n, seed=seed, vectorized=v, center=c))
                    check(abs(wi - wf) <= 1e-9 * 7.0, "width:integer-cloud-differs",
                          f"compute_mean_width(vectorized={v}, center={c}) of {Xi[:4].tolist()}.. given as {iform} = {wi}, given as floats = {wf}")
    check(w1 == w2, "width:not-deterministic", f"same seed gives {w1} and {w2}")
    check(abs(w1 - wv) <= 1e-12 * scale, "width:vectorized-differs", f"vectorized {wv} vs loop {w1}")
    check(abs(w1 - wt) <= 1e-9 * (scale + np.max(np.abs(case["shift"]))), "width:translation", f"{w1} -> {wt} under translation (same seed)")
    check(abs(ws - case["lam"] * w1) <= 1e-9 * case["lam"] * scale, "width:homogeneity", f"width({case['lam']} X) = {ws}, expected {case['lam'] * w1}")
    check(wsup >= w1 - 1e-12 * scale, "width:monotone", f"width decreases when a point is added: {w1} -> {wsup}")
    se = diam / (2 * math.sqrt(n))
    check(abs(wr - w1) <= 2 * 6.5 * se, "width:rotation", f"width changes under rotation beyond the Monte-Carlo bound: {w1} -> {wr} (bound {2 * 6.5 * se:.3g})")
    check(0 <= w1 <= diam * (1 + 1e-12), "width:range", f"mean width {w1} outside [0, diameter {diam}]")
    labs = [f"d{d}", f"r{r}", "nt:width-relations"] + (["many-directions"] if n_opt != n else [])
    n_big = 200000
    se_big = diam / (2 * math.sqrt(n_big))
    if d == 2 and r == 2:
        ex = exact_mean_width(Y, case["kind"])
        check(abs(w1 - ex) <= 6.5 * se, "width:value-2d", f"mean width {w1} but perimeter/pi = {ex} (Monte-Carlo bound {6.5 * se:.3g})")
        with calling("compute_mean_width (n=200000)"):
            wb = float(dreye.compute_mean_width(X, n=n_big, seed=seed, vectorized=True))
        check(abs(wb - ex) <= 6.5 * se_big, "width:value-2d", f"mean width with {n_big} directions {wb} but perimeter/pi = {ex} (Monte-Carlo bound {6.5 * se_big:.3g})")
        labs.append("exact-2d")
    if r == 1 and d >= 2:
        # a segment of length L in d dimensions has mean width L * Gamma(d/2) / (sqrt(pi) Gamma((d+1)/2))
        L = float(Y.max() - Y.min())
        ex = L * math.gamma(d / 2) / (math.sqrt(math.pi) * math.gamma((d + 1) / 2))
        check(abs(w1 - ex) <= 6.5 * se, "width:value-segment", f"mean width of a segment of length {L} in {d}-D is {w1}, expected {ex}")
        with calling("compute_mean_width (n=200000)"):
            wb = float(dreye.compute_mean_width(X, n=n_big, seed=seed, vectorized=True))
        check(abs(wb - ex) <= 6.5 * se_big, "width:value-segment", f"mean width of a segment of length {L} in {d}-D with {n_big} directions is {wb}, expected {ex}")
        labs.append("exact-segment")
    return labs


# ------------------------------------------------------------------------------------------------
# gamut metric


@st.composite
def gamut_case(draw):
    m = draw(st.integers(2, 4))
    k = draw(st.integers(m + 1, m + 7))
    X = np.asarray(draw(gens.array((k, m), 0.0, 10.0, styles=("raw", "sparse")))).reshape(k, m)
    X = X + np.eye(m)[np.arange(k) % m] * 0.5            # no all-zero rows, full-dimensional chromaticities
    sup = np.asarray(draw(gens.array((3, m), 0.0, 10.0, styles=("raw",)))).reshape(3, m) + 0.1
    return dict(X=X.tolist(), extra=sup.tolist(), lam=draw(gens.log_uniform(1e-11, 1e6)), rowlam=draw(gens.array((k,), 0.1, 10.0, styles=("raw",))),
                metric=draw(st.sampled_from(["width", "volume"])), seed=draw(gens.seed_value()), at_l1=draw(st.booleans()), l1_t=draw(st.floats(0.2, 0.8)),
                zero_rows=draw(st.sampled_from(["none", "none", "both", "reference"])))


def affine_dims(Y):
    """(strict, loose) affine dimension of the rows of Y: numbers of singular values of the centred cloud above 1e-6 and above 1e-12
    of the largest.  They differ for nearly flat clouds, where "the volume within the affine span" is ambiguous."""
    Y = np.asarray(Y, dtype=float)
    if Y.shape[0] < 2:
        return 0, 0
    sv = np.linalg.svd(Y - Y.mean(axis=0), compute_uv=False)
    if sv.size == 0 or sv[0] <= 0:
        return 0, 0
    return int(np.sum(sv > 1e-6 * sv[0])), int(np.sum(sv > 1e-12 * sv[0]))


def body_gamut(case):
    dreye = _dreye()
    X = np.asarray(case["X"], dtype=float)
    metric, seed = case["metric"], case["seed"]
    S = np.vstack([X, np.asarray(case["extra"], dtype=float)])
    rowlam = np.maximum(np.asarray(case["rowlam"], dtype=float), 0.1)
    # dark (all-zero) rows carry no chromaticity: they must not change any of the relations
    zr = case.get("zero_rows", "none")
    if zr in ("both", "reference"):
        S = np.vstack([S, np.zeros((1, X.shape[1]))])
    if zr == "both":
        X = np.vstack([X, np.zeros((1, X.shape[1]))])
        rowlam = np.concatenate([rowlam, [1.0]])
    sums = X.sum(axis=1)
    at = float(sums.min() + case["l1_t"] * (sums.max() - sums.min())) if case["at_l1"] and sums.max() > sums.min() * 1.01 else None
    with calling(f"compute_gamut(metric={metric})"):
        with np.errstate(all="ignore"):
            g = float(dreye.compute_gamut(X, metric=metric, seed=seed))
            g_scaled = float(dreye.compute_gamut(X * case["lam"], metric=metric, seed=seed))
            g_rows = float(dreye.compute_gamut(X * rowlam[:, None], metric=metric, seed=seed))
            g_self = float(dreye.compute_gamut(X, metric=metric, seed=seed, relative_to=X))
            g_sup = float(dreye.compute_gamut(X, metric=metric, seed=seed, relative_to=S))
            g_at = float(dreye.compute_gamut(X, metric=metric, seed=seed, relative_to=S, at_l1=at)) if at is not None else None
    check(g > 0, "gamut:positive", f"gamut {g}")
    # the centring options only translate the chromatic coordinates: both metrics are translation invariant
    with calling(f"compute_gamut(metric={metric}, centring options)"):
        with np.errstate(all="ignore"):
            g_ctn = float(dreye.compute_gamut(X, metric=metric, seed=seed, center_to_neutral=True))
            g_nc = float(dreye.compute_gamut(X, metric=metric, seed=seed, center=False))
    check(abs(g_ctn - g) <= 1e-9 * g and abs(g_nc - g) <= 1e-9 * g, "gamut:centring-option",
          f"gamut changes with a centring option (a translation): {g} -> center_to_neutral {g_ctn}, center=False {g_nc}")
    check(abs(g_scaled - g) <= 1e-9 * g, "gamut:intensity-scale", f"gamut changes with the intensity scale of the input: {g} -> {g_scaled} (factor {case['lam']})")
    check(abs(g_rows - g) <= 1e-9 * g, "gamut:row-intensity", f"gamut changes when rows are rescaled individually (same chromaticities): {g} -> {g_rows}")
    check(abs(g_self - 1.0) <= 1e-9, "gamut:relative-to-itself", f"gamut relative to itself = {g_self}")
    check(0 < g_sup <= 1.0 + 1e-9, "gamut:superset", f"gamut relative to a superset = {g_sup}")
    labs = [f"m{X.shape[1]}", metric, f"zero_rows:{zr}"]
    if zr != "none":
        # the gamut relative to the reference with and without its dark row must be identical
        with calling("compute_gamut (reference without the dark row)"):
            with np.errstate(all="ignore"):
                g_ref = float(dreye.compute_gamut(X, metric=metric, seed=seed, relative_to=S[np.abs(S).sum(axis=1) > 0]))
        check(abs(g_ref - g_sup) <= 1e-9 * abs(g_ref), "gamut:dark-row-in-reference", f"a dark row in the reference changes the relative gamut: {g_ref} -> {g_sup}")
    if g_at is not None:
        # the slice at a total: same gamut as the exact slice (rows on the plane + crossings of all below/above pairs) given directly
        from props.c17_project import slice_candidates
        Xs = X[np.abs(X).sum(axis=1) > 0] if zr == "none" else X
        cand = slice_candidates(Xs, at)
        with calling(f"compute_gamut(metric={metric}, at_l1 / exact slice)"):
            with np.errstate(all="ignore"):
                g_at_abs = float(dreye.compute_gamut(X, metric=metric, seed=seed, at_l1=at))
                g_cand = float(dreye.compute_gamut(cand, metric=metric, seed=seed))
        check(abs(g_at_abs - g_cand) <= 1e-6 * max(abs(g_cand), 1e-12), "gamut:at-l1-not-the-slice",
              f"gamut at l1={at} is {g_at_abs}, the gamut of the exact slice of the hull at that total is {g_cand}")
        # The volume is "within the affine span": a slice of lower affine dimension than the reference's chromaticities is measured
        # in another unit (a length against an area) and the ratio is not bounded by 1 - only equal dimensions are compared.
        Sn = S[np.abs(S).sum(axis=1) > 0]
        dX, dS = affine_dims(X[np.abs(X).sum(axis=1) > 0]), affine_dims(Sn / Sn.sum(axis=1, keepdims=True))
        if metric == "volume" and not (dX[0] == dX[1] and dS[0] == dS[1] and dX[0] - 1 == dS[0]):
            check(g_at >= 0, "gamut:at-l1-superset", f"gamut at l1={at} relative to a superset = {g_at}")
            labs.append("at_l1:flat-slice-volume-not-comparable")
        else:
            check(0 <= g_at <= 1.0 + 1e-9, "gamut:at-l1-superset", f"gamut at l1={at} relative to a superset = {g_at}")
            labs.append("at_l1")
    labs.append("nt:superset-strictly-larger" if g_sup < 1 - 1e-6 else "superset-equal")
    return labs


@st.composite
def est_gamut_case(draw):
    c = draw(estimator_system(nf=(2, 4), ns=(2, 6), nd=(6, 25), K_kinds=("none", "vector"), base_kinds=("none", "none", "scalar", "vector")))
    F = np.maximum(np.asarray(c["filters"], dtype=float), 1e-3)
    Ssrc = np.maximum(np.asarray(c["sources"], dtype=float), 1e-3)
    c["filters"], c["sources"] = F.tolist(), Ssrc.tolist()
    c["ub"] = draw(gens.array((Ssrc.shape[0],), 0.5, 10.0, styles=("raw",)))
    c["lb"] = None
    c["metric"] = draw(st.sampled_from(["width", "volume"]))
    c["seed"] = draw(gens.seed_value())
    return c


def body_est_gamut(case):
    F = np.asarray(case["filters"], dtype=float)
    Fh = F / F.sum(axis=0, keepdims=True)
    if np.linalg.matrix_rank(Fh.T - Fh.T.mean(0), tol=1e-6) < F.shape[0] - 1:
        return ["degenerate-filters-skipped"]      # identical receptors: the perfect system itself has no chromatic extent
    Qs = np.asarray(case["sources"], dtype=float) @ F.T
    Qh = Qs / Qs.sum(axis=1, keepdims=True)
    if Qh.shape[0] < 2 or float(np.max(np.abs(Qh - Qh[0]))) < 1e-6:
        return ["degenerate-sources-skipped"]      # all sources have the same chromaticity: the gamut has no chromatic extent (0 is correct)
    with calling("ReceptorEstimator.compute_gamut"):
        est = build_estimator(case)
        with np.errstate(all="ignore"):
            g_abs = float(est.compute_gamut(relative=False, metric=case["metric"], seed=case["seed"]))
            g_rel = float(est.compute_gamut(relative=True, metric=case["metric"], seed=case["seed"]))
            g2 = float(est.compute_gamut(relative=False, metric=case["metric"], seed=case["seed"]))
    check(g_abs == g2, "est-gamut:not-deterministic", f"{g_abs} vs {g2}")
    # the absolute (fraction=False) metric is the gamut metric of the captures of all bound corners; with at_l1 of their exact slice
    import itertools
    from props.c17_project import slice_candidates
    dreye = _dreye()
    A = np.asarray(est.A, dtype=float)
    lbv, ubv = np.broadcast_to(np.asarray(est.lb, dtype=float), (A.shape[1],)), np.broadcast_to(np.asarray(est.ub, dtype=float), (A.shape[1],))
    corners = np.array(list(itertools.product(*zip(lbv, ubv)))) @ A.T
    sums = corners.sum(axis=1)
    at = float(sums.min() + (0.25 + 0.5 * ((case["seed"] % 97) / 97.0)) * (sums.max() - sums.min()))
    with calling("ReceptorEstimator.compute_hull(fraction=False)"):
        with np.errstate(all="ignore"):
            h_abs = float(est.compute_hull(fraction=False, relative=False, metric=case["metric"], seed=case["seed"]))
            h_ref = float(dreye.compute_gamut(corners, metric=case["metric"], seed=case["seed"]))
            h_at = float(est.compute_hull(fraction=False, relative=False, metric=case["metric"], seed=case["seed"], at_l1=at))
            h_at_ref = float(dreye.compute_gamut(slice_candidates(corners, at), metric=case["metric"], seed=case["seed"]))
    # the fraction is taken against the perfect system (one monochromatic light per wavelength) in the same kind of capture:
    # absolute capture of the lights for relative=False, K (capture + baseline) for relative=True
    nd_ = np.asarray(est.filters).shape[-1]
    with calling("ReceptorEstimator.compute_gamut / reference built by hand"):
        with np.errstate(all="ignore"):
            perfect_abs = np.asarray(est.capture(np.eye(nd_)), dtype=float)
            f_abs_ref = float(dreye.compute_gamut(corners, relative_to=perfect_abs, metric=case["metric"], seed=case["seed"]))
            Kv = np.broadcast_to(np.asarray(est.K, dtype=float), (A.shape[0],)) if np.ndim(est.K) <= 1 else None
            if Kv is not None:
                base_v = np.broadcast_to(np.asarray(est.baseline, dtype=float), (A.shape[0],))
                f_rel_ref = float(dreye.compute_gamut(Kv * (corners + base_v), relative_to=Kv * (perfect_abs + base_v), metric=case["metric"], seed=case["seed"]))
    check(abs(g_abs - f_abs_ref) <= 1e-7 * max(abs(f_abs_ref), 1e-12), "est-gamut:fraction-absolute",
          f"fractional gamut in absolute capture = {g_abs}, gamut of the bound corners relative to the perfect system in absolute capture = {f_abs_ref}")
    if Kv is not None:
        check(abs(g_rel - f_rel_ref) <= 1e-7 * max(abs(f_rel_ref), 1e-12), "est-gamut:fraction-relative",
              f"fractional gamut in relative capture = {g_rel}, reference {f_rel_ref}")
    check(abs(h_abs - h_ref) <= 1e-7 * max(abs(h_ref), 1e-12), "est-gamut:absolute-metric", f"compute_hull(fraction=False) = {h_abs}, metric of the bound corners' captures = {h_ref}")
    check(abs(h_at - h_at_ref) <= 1e-6 * max(abs(h_at_ref), 1e-12), "est-gamut:at-l1", f"compute_hull(at_l1={at:.4g}) = {h_at}, metric of the exact slice = {h_at_ref}")
    nf, ns = len(case["filters"]), len(case["sources"])
    dq = affine_dims(Qh)
    if case["metric"] == "volume" and not (dq[0] == dq[1] == nf - 1):
        # fewer distinct source chromaticities than the receptor space has dimensions: the sources' volume is a lower-dimensional
        # measure than the perfect system's and the ratio of the two is not a fraction
        check(g_abs >= 0, "est-gamut:range", f"{g_abs}")
        return ["flat-volume"]
    check(0 < g_abs <= 1.0 + 1e-9, "est-gamut:range", f"fractional gamut in absolute capture = {g_abs} (must lie in (0, 1])")
    return [f"{nf}x{ns}", case["metric"], "nt:fraction-of-perfect-system"]


# ------------------------------------------------------------------------------------------------
# Jensen-Shannon divergence


@st.composite
def jsd_case(draw):
    k = draw(st.integers(2, 8))
    P = np.asarray(draw(gens.array((k,), 0.0, 10.0, styles=("raw", "sparse", "int"))))
    Q = np.asarray(draw(gens.array((k,), 0.0, 10.0, styles=("raw", "sparse", "int"))))
    P = np.where(P < 1e-6, 0.0, P)
    Q = np.where(Q < 1e-6, 0.0, Q)
    if P.sum() == 0:
        P[0] = 1.0
    if Q.sum() == 0:
        Q[-1] = 1.0
    # the documented `base` option: "the logarithmic base to use" (None = the default, 2)
    base = draw(st.sampled_from([None, None, 2, 2.0, math.e, 3, 4, 10, 10.0, 1.5]))
    return dict(P=P.tolist(), Q=Q.tolist(), a=draw(gens.log_uniform(1e-3, 1e3)), b=draw(gens.log_uniform(1e-3, 1e3)), base=base)


def own_jsd(P, Q):
    p, q = P / P.sum(), Q / Q.sum()
    m = 0.5 * (p + q)
    t = 0.0
    for a, mm in ((p, m), (q, m)):
        for x, y in zip(a, mm):
            if x > 0:
                t += 0.5 * x * math.log2(x / y)
    return t


def body_jsd(case):
    dreye = _dreye()
    P, Q = np.asarray(case["P"], dtype=float), np.asarray(case["Q"], dtype=float)
    with calling("compute_jensen_shannon_divergence"):
        d = float(dreye.compute_jensen_shannon_divergence(P, Q))
        d_sym = float(dreye.compute_jensen_shannon_divergence(Q, P))
        d_scaled = float(dreye.compute_jensen_shannon_divergence(P * case["a"], Q * case["b"]))
        d_self = float(dreye.compute_jensen_shannon_divergence(P, P * case["a"]))
        sim = float(dreye.compute_jensen_shannon_similarity(P, Q))
        base = case.get("base")
        d_base = None if base is None else float(dreye.compute_jensen_shannon_divergence(P, Q, base=base))
    ex = own_jsd(P, Q)
    if d_base is not None:
        # a change of the logarithm's base rescales the divergence by ln 2 / ln base
        ex_b = ex * math.log(2.0) / math.log(base)
        check(abs(d_base - ex_b) <= 4e-12, "jsd:base", f"divergence with base={base!r} is {d_base!r}, definition gives {ex_b!r}")
    check(abs(d - ex) <= 1e-12, "jsd:value", f"divergence {d!r}, definition gives {ex!r}")
    check(abs(d - d_sym) <= 1e-12, "jsd:symmetry", f"{d} vs {d_sym}")
    check(abs(d - d_scaled) <= 1e-12, "jsd:normalisation-invariance", f"{d} vs {d_scaled} after rescaling the inputs")
    check(abs(d_self) <= 1e-12, "jsd:zero-for-proportional", f"divergence of proportional inputs = {d_self}")
    check(-1e-12 <= d <= 1.0 + 1e-12, "jsd:range", f"divergence {d} outside [0, 1] bit")
    check(abs(sim - (1.0 - d)) <= 1e-12, "jsd:similarity", f"similarity {sim} != 1 - divergence {1 - d}")
    p, q = P / P.sum(), Q / Q.sum()
    labs = [f"k{len(P)}", "base:default" if case.get("base") is None else "base:given"]
    if np.max(np.abs(p - q)) > 1e-4:
        check(d >= 1e-9, "jsd:zero-for-different", f"divergence {d} for clearly different distributions")
        labs.append("different")
    if np.any(P == 0) or np.any(Q == 0):
        labs.append("nt:zeros")
    else:
        labs.append("nt:dense")
    return labs


RULE = (
    "Hypothesis-generated shapes with known volume (simplices, boxes, Delaunay-triangulated clouds) of intrinsic dimension r in 1..d embedded in "
    "d = 1..5 dimensions by a random orthonormal basis + offset (flat clouds when r < d), random rigid motions (QR of drawn matrices), "
    "scalings in [1e-3,1e3], added points, seeds; non-negative capture clouds for the gamut metric (scale, per-row scale, itself, superset, at_l1); "
    "estimator systems for the fractional gamut; non-negative vector pairs with zeros for the divergence. Oracle: closed forms / own "
    "determinant sum for the volume, exact relations under the same seed and closed forms (perimeter/pi, segment) within a 6.5-sigma Monte-Carlo "
    "bound for the mean width, own sum p log2(p/m) for the divergence. Non-trivial = flat cloud, closed-form or triangulated volume, width "
    "relations, strictly larger superset, distributions with zeros."
    " Shapes may be thin (aspect ratios down to 1e-4) but of unambiguous affine dimension (singular value ratio >= 1e-6). Gamut: centring options, at_l1 against the exact slice. Estimator: K vector and baseline scalar/vector; fraction=True against the metric of the bound corners relative to the hand-built perfect system (relative and absolute), fraction=False and at_l1 against the same metric of the corners / their exact slice."
    " Mean width: the same whole-number cloud (0..7 per axis) as int64 array / list of ints and as floats gives equal widths for all four option combinations."
)

PROP = Prop(
    pid="C18",
    title="Gamut-size and divergence metrics equal their geometric/information definitions",
    rule=RULE,
    assumptions=["shapes whose smallest singular value is below 1e-2 of the largest are skipped: their affine rank is a matter of tolerance",
                 "mean width is Monte-Carlo: values are compared within 6.5 standard errors (diam / (2 sqrt n))"],
    subs=[
        Sub("volume", shape_case(), body_volume, quick=800, thorough=50000, quick_shards=4, min_nt_share=0.3),
        Sub("mean_width", shape_case(), body_width, quick=300, thorough=15000, quick_shards=4, min_nt_share=0.3),
        Sub("gamut_metric", gamut_case(), body_gamut, quick=400, thorough=20000, quick_shards=4, min_nt_share=0.2),
        Sub("estimator_gamut", est_gamut_case(), body_est_gamut, quick=200, thorough=10000, quick_shards=2, min_nt_share=0.3),
        Sub("jensen_shannon", jsd_case(), body_jsd, quick=1500, thorough=100000, quick_shards=2, min_nt_share=0.3),
    ],
)
