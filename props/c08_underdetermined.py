"""C08 — underdetermined fits reproduce the target and optimise the chosen secondary goal."""
from __future__ import annotations

import numpy as np

from vlib import hooks
from hypothesis import strategies as st

from vlib import gens
from vlib.core import unchanged, Prop, Sub, Violation, calling, check
from vlib.oracles import rows_sharing_a_solution, _linprog, lp_margin
from vlib.systems import proportional_variant, Sys, matrix_system, target_rows


def under_system():
    return matrix_system(m=(2, 4), shape="under", surplus=(1, 3), ub_kinds=("finite",), lb_kinds=("zero", "zero", "pos"), sub_cond=1e4)


@st.composite
def under_case(draw):
    sysd, _prop = draw(proportional_variant(draw(under_system())))
    sv = Sys(sysd)
    rows = draw(target_rows(sysd, ["interior", "interior", "interior", "near_in"], nrows=(1, 2), margin=(0.05, 0.45)))
    if draw(st.integers(0, 3)) == 0:
        # a fine intensity ramp: consecutive targets a few 1e-6 apart (relative) are different problems
        r0 = rows[-1]
        for _ in range(draw(st.integers(1, 2))):
            f = 1.0 + draw(gens.log_uniform(1e-7, 1e-5))
            rows.append(dict(r0, b=(np.asarray(rows[-1]["b"], dtype=float) * f).tolist(), kind="interior+ramp"))
    kind = draw(st.sampled_from(["none", "l2", "min", "max", "var", "number", "vector"]))
    opt = kind
    if kind == "number":
        # total intensity request: inside, below or above the achievable range
        # (a request of exactly zero - "as dim as possible, measured by the total" - as float or int is a number like any other)
        opt = draw(st.one_of(st.floats(0.0, 1.3).map(lambda f: float(f * float(np.sum(sv.ub)))), st.floats(0.0, 1.3).map(lambda f: float(f * float(np.sum(sv.ub)))),
                             st.floats(0.0, 1.3).map(lambda f: float(f * float(np.sum(sv.ub)))), st.sampled_from([0.0, 0])))
    elif kind == "vector":
        opt = (sv.lb + np.asarray(draw(gens.array((sv.n,), -0.2, 1.2, styles=("raw",)))) * (sv.ub - sv.lb)).tolist()
        if draw(st.integers(0, 2)) == 0 and rows[0].get("x") is not None:
            # a goal that reproduces the first target exactly but leaves the box: the intensities behind the target moved along
            # the null space of the capture matrix (e.g. a previous solution after the bounds were narrowed)
            x0 = np.asarray(rows[0]["x"], dtype=float)
            nv = np.linalg.svd(sv.Ap)[2][-1]
            steps = [((ub_ - x_) / v_ if v_ > 0 else (lb_ - x_) / v_) for x_, v_, lb_, ub_ in zip(x0, nv, sv.lb, sv.ub) if abs(v_) > 1e-9]
            if steps:
                opt = (x0 + nv * (min(steps) * draw(st.floats(1.2, 3.0)))).tolist()
    W = draw(st.one_of(st.none(), gens.array((sv.m,), 0.5, 2.0, styles=("raw",))))
    return dict(system=sysd, rows=rows, kind=kind, opt=opt, l2_eps=draw(gens.log_uniform(1e-6, 1e-3)), W=W,
                entry=draw(st.sampled_from(["function", "estimator"])), proportional=_prop)


def goal_fn(kind, opt):
    if kind in ("none", "l2"):
        return lambda x: float(np.linalg.norm(x))
    if kind == "min":
        return lambda x: float(np.sum(x))
    if kind == "max":
        return lambda x: -float(np.sum(x))
    if kind == "var":
        return lambda x: float(np.sum((x - np.mean(x)) ** 2))
    if kind == "number":
        return lambda x: float((np.sum(x) - opt) ** 2)
    v = np.asarray(opt, dtype=float)
    return lambda x: float(np.sum((x - v) ** 2))


def witness(sv, b, goal, starts):
    """feasible (A'x = b', in-bound) point with a small goal value: SLSQP from several starts; verified before use."""
    from scipy.optimize import minimize

    rhs = b - sv.basep
    cons = [dict(type="eq", fun=lambda x: sv.Ap @ x - rhs, jac=lambda x: sv.Ap)]
    bnds = list(zip(sv.lb, sv.ub))
    best = None
    for x0 in starts:
        try:
            r = minimize(goal, x0, bounds=bnds, constraints=cons, method="SLSQP", options=dict(maxiter=500, ftol=1e-14))
        except Exception:
            continue
        x = np.clip(r.x, sv.lb, sv.ub)
        if np.max(np.abs(sv.Ap @ x - rhs)) > 1e-8 * (1 + np.max(np.abs(rhs))):
            continue
        v = goal(x)
        if best is None or v < best[0]:
            best = (v, x)
    return best


def lp_sum(sv, b, w, eps, maximize):
    """optimum of sum(x) over the box with |A'x - b'|_i <= eps / w_i (a superset of the l2 ball): bracket for 'min'/'max'."""
    rhs = b - sv.basep
    slack = eps / w
    A_ub = np.vstack([sv.Ap, -sv.Ap])
    b_ub = np.concatenate([rhs + slack, -(rhs - slack)])
    c = -np.ones(sv.n) if maximize else np.ones(sv.n)
    r = _linprog(c, A_ub=A_ub, b_ub=b_ub, bounds=list(zip(sv.lb, sv.ub)))
    if r.status != 0:
        return None
    return float(np.sum(r.x)), np.asarray(r.x)


def body_under(case):
    sv = Sys(case["system"])
    # the property quantifies over in-gamut targets: a constructed near-boundary row that ends up outside (LP margin < 1e-6)
    # is dropped here (counted), never sent to the fit
    rows_ok = []
    for r in case["rows"]:
        t = lp_margin(sv.Ap, sv.basep, sv.lb, sv.ub, np.asarray(r["b"], dtype=float))
        if t is not None and t >= 1e-6:
            rows_ok.append(r)
    if not rows_ok:
        return ["all-rows-outside-skipped"]
    case = dict(case, rows=rows_ok)
    B = np.array([r["b"] for r in case["rows"]], dtype=float)
    kind, opt, eps = case["kind"], case["opt"], case["l2_eps"]
    W = case["W"]
    w = np.ones(sv.m) if W is None else np.maximum(np.asarray(W, dtype=float), 0.5)
    arg = None if kind == "none" else (opt if kind in ("l2", "min", "max", "var", "number") else np.asarray(opt, dtype=float))
    with calling(f"fit_underdetermined({kind})"):
        if case["entry"] == "estimator":
            est = sv.make_estimator(w=(None if W is None else w))
            with unchanged("under", estimator=est):
                X, Bp = est.fit_underdetermined(B, underdetermined_opt=arg, l2_eps=eps)
        else:
            from dreye.api.optimize.lsq_linear import lsq_linear_underdetermined

            X, Bp = lsq_linear_underdetermined(sv.A, B, W=(None if W is None else w), underdetermined_opt=arg, l2_eps=eps, return_pred=True, **sv.kwargs())
    X, Bp = np.asarray(X), np.asarray(Bp)
    solves = hooks.events("solve")
    # whole-number targets (counts) that are still inside the gamut: the int64 array gets the fit of the same numbers as floats
    whole = np.round(B)
    twin_done = False
    if all((lambda t: t is not None and t >= 1e-6)(lp_margin(sv.Ap, sv.basep, sv.lb, sv.ub, r)) for r in whole):
        from dreye.api.optimize.lsq_linear import lsq_linear_underdetermined as _under

        with calling(f"fit_underdetermined({kind}) of whole-number targets (int64 / float64)"):
            Xi = np.asarray(_under(sv.A, whole.astype(np.int64), W=(None if W is None else w), underdetermined_opt=arg, l2_eps=eps, **sv.kwargs()))
            Xf = np.asarray(_under(sv.A, whole.copy(), W=(None if W is None else w), underdetermined_opt=arg, l2_eps=eps, **sv.kwargs()))
        twin_done = True
        check(Xi.shape == Xf.shape and np.all(np.abs(Xi - Xf) <= 1e-6 * float(np.max(sv.ub - sv.lb))), "under:integer-targets-differ",
              f"targets {whole.tolist()} as an int64 array give {Xi.tolist()}, as floats {Xf.tolist()} (option {kind})")
    scs_fallback = (not hooks.available()) or any(e.get("solver") == "SCS" for e in solves)
    check(X.shape == (B.shape[0], sv.n) and Bp.shape == B.shape, "under:shape", f"{X.shape} {Bp.shape}")
    rng = sv.ub - sv.lb
    tolx = 1e-4 * float(np.max(rng))
    check(np.all(X >= sv.lb - tolx) and np.all(X <= sv.ub + tolx), "under:bounds", f"intensities {X.tolist()} outside [{sv.lb.tolist()}, {sv.ub.tolist()}]")
    model = sv.predict(X)
    mag = np.abs(X) @ np.abs(sv.Ap).T + np.abs(sv.basep)
    check(np.all(np.abs(Bp - model) <= 1e-9 * mag + 1e-300), "under:prediction", "B_pred is not the model's capture of X")
    if kind not in ("min", "max"):
        pairs = rows_sharing_a_solution(B, X, sv.lb, sv.ub, sv.Ap, scale=sv.extent)
        # one intensity vector can serve two targets that are closer than twice the requested tolerance: only pairs further apart count
        pairs = [(i, j) for i, j in pairs if float(np.linalg.norm(w * (B[i] - B[j]))) > 2.1 * eps]
        check(not pairs, "under:rows-share-a-solution", f"rows {pairs} have different targets but bit-identical intensities (option {kind})")
    labs = sv.labels() + [f"opt:{kind}", f"entry:{case['entry']}", "W" if W is not None else "noW"] + (["ramp-rows"] if any("ramp" in r["kind"] for r in case["rows"]) else []) + (["proportional-sources"] if case.get("proportional") else []) + (["whole-number-twin"] if twin_done else [])
    goal = goal_fn(kind, opt)
    for i, b in enumerate(B):
        res = float(np.linalg.norm(w * (model[i] - b)))
        # the default conic solvers satisfy a constraint to about 1e-5 of the size of the data (CLARABEL optimal_inaccurate); when the
        # default solver failed and the fallback SCS answered ("optimal" or "optimal_inaccurate"), its own tolerances (1e-4 absolute + relative) apply
        check(res <= 1.05 * eps + 1e-6 + (1e-4 * (1.0 + float(np.max(np.abs(b)))) if scs_fallback else 1e-5 * float(np.max(np.abs(b)))), "under:target-not-reproduced", f"weighted capture error {res:.3g} exceeds the requested tolerance {eps:.3g} (option {kind})",
              observed=dict(b=b.tolist(), x=X[i].tolist()))
        x = np.clip(X[i], sv.lb, sv.ub)
        g_code = goal(x)
        # scale of the goal for tolerances (intensity units)
        s_int = float(np.sum(np.abs(sv.ub))) + 1.0
        if kind in ("min", "max"):
            eq = lp_sum(sv, b, w, 0.0, maximize=(kind == "max"))
            rel = lp_sum(sv, b, w, eps * 1.05 + 1e-6, maximize=(kind == "max"))
            if eq is None or rel is None:
                labs.append("lp-infeasible")
                continue
            v_eq, v_rel = eq[0], rel[0]
            total = float(np.sum(x))
            tol = 1e-3 * s_int
            if kind == "min":
                check(total <= v_eq + tol, "under:not-optimal", f"'min': total intensity {total:.6g} but {v_eq:.6g} is achievable", observed=dict(b=b.tolist(), x=x.tolist()))
                check(total >= v_rel - tol, "under:better-than-possible", f"'min': total {total:.6g} below the bound {v_rel:.6g} of the relaxed set")
            else:
                check(total >= v_eq - tol, "under:not-optimal", f"'max': total intensity {total:.6g} but {v_eq:.6g} is achievable", observed=dict(b=b.tolist(), x=x.tolist()))
                check(total <= v_rel + tol, "under:better-than-possible", f"'max': total {total:.6g} above the bound {v_rel:.6g} of the relaxed set")
            other = lp_sum(sv, b, w, 0.0, maximize=(kind != "max"))
            if other is not None and abs(other[0] - v_eq) > 1e-3 * s_int:
                labs.append("nt:secondary-goal-matters")
        else:
            mid = (sv.lb + sv.ub) / 2
            starts = [x, mid, np.asarray(case["rows"][i].get("x", mid), dtype=float)]
            wit = witness(sv, b, goal, starts)
            if wit is None:
                labs.append("no-witness")
                continue
            g_wit, xw = wit
            quad = kind in ("var", "number", "vector")
            tol = (2e-3 * s_int * (1.0 + np.sqrt(max(g_wit, 0.0)))) if quad else 1e-3 * s_int
            check(g_code <= g_wit + tol, "under:not-optimal",
                  f"option {kind}: goal value {g_code:.6g} of the returned intensities exceeds {g_wit:.6g} of a feasible witness (tol {tol:.3g})",
                  observed=dict(b=b.tolist(), x=x.tolist(), witness=xw.tolist()))
            # is the option really exercised? compare with a different goal's witness
            alt = witness(sv, b, goal_fn("min", None), starts)
            if alt is not None and goal(alt[1]) > g_wit + 10 * tol:
                labs.append("nt:secondary-goal-matters")
    return labs


RULE = (
    "Hypothesis-generated under-determined well-scaled systems (2-4 receptors, 1-3 surplus sources, lb zero/positive, finite ub, K, baseline, "
    "optional receptor weights) with in-gamut targets (interior, near-boundary), every option {None,'l2','min','max','var', number, vector}, "
    "l2_eps log-uniform in [1e-6,1e-3], both entry points. Oracle: membership in F={box, ||W(A'x-b')||<=l2_eps}; exact HiGHS LPs for "
    "'min'/'max' (on the equality set for optimality, on the relaxed inf-norm set for the 'better than possible' bracket); SLSQP witnesses "
    "(verified feasible) for the quadratic goals. Non-trivial = another goal's optimum has a clearly worse value of the selected goal."
    " A fifth of the systems have two sources with proportional captures."
    " Rounded targets that stay in the gamut are fitted as int64 and as float arrays: equal intensities."
    " The total-intensity request is exactly 0 (float or int) in a quarter of the 'number' cases."
)

PROP = Prop(
    pid="C08",
    title="Underdetermined fits reproduce the target and optimise the chosen secondary goal",
    rule=RULE,
    assumptions=["witness principle for quadratic goals (SLSQP minimisers verified feasible to 1e-8)", "tolerances: 1e-3 of the summed upper bounds for linear goals"],
    subs=[
        Sub("secondary_goal", under_case(), body_under, quick=1200, thorough=30000, quick_shards=8, min_nt_share=0.25),
    ],
)
