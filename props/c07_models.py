"""C07 — Poisson and excitation models minimise their objective; all three models agree in gamut."""
from __future__ import annotations

import numpy as np
from hypothesis import strategies as st

from vlib import gens
from vlib.core import unchanged, Prop, Sub, Violation, calling, check
from vlib.oracles import bvls, lp_dist, _linprog
from vlib.systems import NOMINAL_RANGE, Sys, matrix_system, target_rows


def nonneg_system():
    return matrix_system(m=(1, 4), n=(1, 6), K_kinds=("none", "scalar", "vector"), base_kinds=("none", "none", "scalar", "vector"),
                         ub_kinds=("finite", "finite", "inf"), lb_kinds=("zero", "zero", "pos"), nonneg=True)


@st.composite
def model_case(draw, model):
    sysd = draw(nonneg_system())
    rows = draw(target_rows(sysd, ["interior", "interior", "near_out", "outside", "scaled_out", "random"], nrows=(1, 3)))
    sv = Sys(sysd)
    # targets >= 0 (stated domain); keep them strictly positive for the Poisson likelihood to be informative
    for r in rows:
        r["b"] = np.maximum(np.asarray(r["b"], dtype=float), 0.0).tolist()
    if model == "poisson" and draw(st.integers(0, 3)) == 0:
        # one receptor's target (nearly) dark next to ordinary ones: exact zero or 1e-6 .. 1e-12
        r_ = rows[draw(st.integers(0, len(rows) - 1))]
        r_["b"][draw(st.integers(0, len(r_["b"]) - 1))] = draw(st.sampled_from([0.0, 1e-6, 1e-9, 1e-12]))
        r_["kind"] = r_["kind"] + "+dark-entry"
    if model == "poisson" and draw(st.integers(0, 3)) == 0:
        rows.append(dict(rows[-1], b=list(rows[-1]["b"]), kind=rows[-1]["kind"] + "+repeat"))      # the same target again (other weights)
    W = None
    if model == "poisson" and draw(st.booleans()):
        if draw(st.integers(0, 2)) == 0:
            # per-sample weights (one row per target): through the function, or registered with the targets
            W = np.maximum(np.asarray(draw(gens.array((len(rows), len(sysd["A"])), 0.3, 3.0, styles=("raw",)))).reshape(len(rows), -1), 0.3).tolist()
        else:
            W = draw(gens.array((len(sysd["A"]),), 0.3, 3.0, styles=("raw", "int")))
            W = np.maximum(np.asarray(W), 0.3).tolist()
    return dict(system=sysd, rows=rows, W=W, entry=draw(st.sampled_from(["function", "estimator"])),
                accuracy=draw(st.sampled_from(["default", "high"])),
                # how many targets are stacked into one problem: a performance setting only (Poisson / gaussian)
                # the excitation model accepts the option too and solves every target on its own whatever it says
                # (drawn for it after seeded change S-C07-11)
                batch_size=draw(st.sampled_from([None, None, 2, 3, "full"])),
                int_targets=(draw(st.integers(0, 4)) == 0))


def _targets(case):
    """target rows; entries below 1e-300 are exact zeros"""
    B = np.array([r["b"] for r in case["rows"]], dtype=float)
    if case.get("int_targets"):
        B = np.round(B)                     # photon counts: whole numbers, handed over as an integer-typed array (see _arg)
    return np.where(np.abs(B) < 1e-300, 0.0, B)


def _arg(B, case):
    return B.astype(np.int64) if case.get("int_targets") else B


def run_model(sv, B, W, model, entry, **opt):
    from dreye.api.optimize import lsq_linear as L

    if entry == "estimator" and W is not None and np.ndim(W) == 2:
        est = sv.make_estimator()
        est.register_targets(np.array(B, dtype=float), W=np.asarray(W, dtype=float))
        with unchanged("model", estimator=est):
            X, Bp = est.fit(B, model=model, **opt)
        return np.asarray(X), np.asarray(Bp)
    if entry == "estimator":
        if W is not None and int(abs(float(np.sum(B))) * 1e6) % 2 == 1:
            # the receptor weights come with an earlier registration of (fewer) targets; the fit is then asked for explicit ones
            est = sv.make_estimator()
            est.register_targets(np.array(B[:1], dtype=float), W=np.asarray(W, dtype=float))
        else:
            est = sv.make_estimator(w=(None if W is None else np.asarray(W, dtype=float)))
        with unchanged("model", estimator=est):
            X, Bp = est.fit(B, model=model, **opt)
        return np.asarray(X), np.asarray(Bp)
    Wa = None if W is None else np.asarray(W, dtype=float)
    if model == "excitation":
        X, Bp = L.lsq_linear_excitation(sv.A, B, W=Wa, return_pred=True, **sv.kwargs(), **opt)
    else:
        X, Bp = L.lsq_linear(sv.A, B, W=Wa, model=model, return_pred=True, **sv.kwargs(), **opt)
    return np.asarray(X), np.asarray(Bp)


def common_checks(sv, B, X, Bp, label, frac=1e-2):
    check(X.shape == (B.shape[0], sv.n) and Bp.shape == B.shape, f"{label}:shape", f"X {X.shape} B_pred {Bp.shape}")
    check(np.all(np.isfinite(X)), f"{label}:nonfinite", "non-finite intensities")
    rng = np.where(np.isfinite(sv.ub), sv.ub - sv.lb, NOMINAL_RANGE)
    slack = frac * float(np.max(rng))
    check(np.all(X >= sv.lb - slack) and np.all(X <= np.where(np.isfinite(sv.ub), sv.ub + slack, np.inf)), f"{label}:bounds",
          f"intensities {X.tolist()} outside the bounds [{sv.lb.tolist()}, {sv.ub.tolist()}]")
    model = sv.predict(X)
    mag = np.abs(X) @ np.abs(sv.Ap).T + np.abs(sv.basep)
    check(np.all(np.abs(Bp - model) <= 1e-9 * mag + 1e-300), f"{label}:prediction", f"B_pred {Bp.tolist()} != K(Ax+baseline) {model.tolist()}")


# ------------------------------------------------------------------------------------------------
# Poisson


def poisson_nll(sv, x, b, w):
    q = sv.Ap @ x + sv.basep
    q = np.maximum(q, 1e-300)
    return float(np.sum(w * (q - b * np.log(q))))


def poisson_witness(sv, b, w, starts):
    from scipy.optimize import minimize

    best = None
    bnds = [(float(l), (None if not np.isfinite(u) else float(u))) for l, u in zip(sv.lb, sv.ub)]

    def f(x):
        q = np.maximum(sv.Ap @ x + sv.basep, 1e-12)
        return float(np.sum(w * (q - b * np.log(q))))

    def g(x):
        q = np.maximum(sv.Ap @ x + sv.basep, 1e-12)
        return sv.Ap.T @ (w * (1.0 - b / q))

    for x0 in starts:
        x0 = np.clip(x0, sv.lb, np.where(np.isfinite(sv.ub), sv.ub, np.inf))
        try:
            r = minimize(f, x0, jac=g, bounds=bnds, method="L-BFGS-B", options=dict(maxiter=2000, ftol=1e-15, gtol=1e-10))
        except Exception:
            continue
        x = np.clip(r.x, sv.lb, np.where(np.isfinite(sv.ub), sv.ub, np.inf))
        v = f(x)
        if best is None or v < best[0]:
            best = (v, x)
    return best


def body_poisson(case):
    sv = Sys(case["system"])
    B = _targets(case)
    W = case["W"]
    bs = case.get("batch_size")
    with calling(f"poisson fit (batch_size={bs})"):
        X, Bp = run_model(sv, _arg(B, case), W, "poisson", case["entry"], **({} if bs is None else dict(batch_size=bs)))
    common_checks(sv, B, X, Bp, "poisson")
    w_all = np.ones((B.shape[0], sv.m)) if W is None else np.broadcast_to(np.asarray(W, dtype=float), (B.shape[0], sv.m))
    labs = sv.labels() + [("W2d" if np.ndim(W) == 2 else "W") if W is not None else "noW", f"entry:{case['entry']}", f"batch:{bs}"] + (["int-typed-targets"] if case.get("int_targets") else [])
    for i, (r, b) in enumerate(zip(case["rows"], B)):
        w = w_all[i]
        xc = np.clip(X[i], sv.lb, np.where(np.isfinite(sv.ub), sv.ub, np.inf))
        f_code = poisson_nll(sv, xc, b, w)
        xb, _ = bvls(sv.Ap, sv.basep, sv.lb, sv.ub, b, None)
        wit = poisson_witness(sv, b, w, [xb, xc, (sv.lb + np.where(np.isfinite(sv.ub), sv.ub, sv.lb + NOMINAL_RANGE)) / 2])
        if wit is None:
            continue
        f_wit, xw = wit
        scale = float(np.sum(w * (np.abs(sv.Ap @ xw + sv.basep) + np.abs(b) * (1 + np.abs(np.log(np.maximum(sv.Ap @ xw + sv.basep, 1e-300)))))))
        tol = 1e-4 * (1.0 + scale)
        d, _ = lp_dist(sv.Ap, sv.basep, sv.lb, sv.ub, b)
        if d > 1e-6 * sv.extent:
            labs.append("nt:out-of-gamut")
        if np.any(sv.basep != 0):
            labs.append("nt:baseline")
        check(f_code <= f_wit + tol, "poisson:not-optimal",
              f"weighted Poisson NLL of the returned intensities {f_code:.8g} exceeds that of a feasible witness {f_wit:.8g} by more than {tol:.3g} "
              f"(kind={r['kind']}, {'/'.join(sv.labels())})", observed=dict(b=b.tolist(), x=X[i].tolist(), witness=xw.tolist()))
        if d <= 1e-9 * sv.extent and np.all(b > 0):
            labs.append("in-gamut")
            check(np.all(np.abs(Bp[i] - b) <= 2e-2 * np.maximum(1.0, np.sqrt(b))), "poisson:in-gamut-not-reproduced",
                  f"in-gamut target {b.tolist()} fitted as {Bp[i].tolist()}")
    return labs


# ------------------------------------------------------------------------------------------------
# excitation


def excitation_value(b, q):
    return float(np.max(np.abs(b / (1 + b) - q / (1 + q))))


def excitation_opt(sv, b, iters=40):
    """min over in-bound x of max_i |e(b_i) - e(q_i)| by bisection on t with an LP feasibility problem (linear in q for fixed t)."""
    n, m = sv.n, sv.m
    bnds = [(float(l), (None if not np.isfinite(u) else float(u))) for l, u in zip(sv.lb, sv.ub)]

    def feasible(t):
        # b - q <= t (1+b)(1+q)  and  q - b <= t (1+b)(1+q),  q = A'x + base'
        c1 = t * (1 + b)
        # -(1 + c1) q <= c1 - b   ;   (1 - c1) q <= c1 + b
        A_ub = np.vstack([-(1 + c1)[:, None] * sv.Ap, (1 - c1)[:, None] * sv.Ap])
        b_ub = np.concatenate([c1 - b + (1 + c1) * sv.basep, c1 + b - (1 - c1) * sv.basep])
        r = _linprog(np.zeros(n), A_ub=A_ub, b_ub=b_ub, bounds=bnds)
        return r.status == 0, (r.x if r.status == 0 else None)

    lo, hi = 0.0, 1.0
    ok, x = feasible(0.0)
    if ok:
        return 0.0, x
    xbest = None
    for _ in range(iters):
        mid = (lo + hi) / 2
        ok, x = feasible(mid)
        if ok:
            hi, xbest = mid, x
        else:
            lo = mid
    return hi, xbest


def body_excitation(case):
    sv = Sys(case["system"])
    B = _targets(case)
    bs = case.get("batch_size")
    bs = len(case["rows"]) if bs == "full" else bs          # the excitation function documents an integer
    with calling(f"excitation fit (batch_size={bs})"):
        X, Bp = run_model(sv, _arg(B, case), None, "excitation", case["entry"], **({} if bs is None else dict(batch_size=bs)))
    # only the default solver (SCS bisection): the statement of C07 does not promise a solver pass-through for this model, and
    # cvxpy's bisection with CLARABEL aborts with "Max iters hit during bisection" on well-posed instances (see DESIGN.md section 8)
    check(X.shape == (B.shape[0], sv.n) and Bp.shape == B.shape, "excitation:shape", f"X {X.shape} B_pred {Bp.shape}")
    check(np.all(np.isfinite(X)), "excitation:nonfinite", "non-finite intensities")
    model = sv.predict(X)
    mag = np.abs(X) @ np.abs(sv.Ap).T + np.abs(sv.basep)
    check(np.all(np.abs(Bp - model) <= 1e-9 * mag + 1e-300), "excitation:prediction", f"B_pred {Bp.tolist()} != K(Ax+baseline) {model.tolist()}")
    rng = np.where(np.isfinite(sv.ub), sv.ub - sv.lb, NOMINAL_RANGE)
    slack = 2e-2 * float(np.max(rng))
    etol = 2.5e-2   # excitation units (de/dq <= 1: the 2e-2 capture accuracy of C04)
    labs = sv.labels() + [f"entry:{case['entry']}"] + (["int-typed-targets"] if case.get("int_targets") else [])
    for i, (r, b) in enumerate(zip(case["rows"], B)):
        d, _ = lp_dist(sv.Ap, sv.basep, sv.lb, sv.ub, b)
        cls = "in-gamut" if d <= 1e-9 * sv.extent else "out-of-gamut"
        labs.append(cls)
        if cls == "out-of-gamut":
            labs.append("nt:out-of-gamut")
        if np.any(sv.basep != 0):
            labs.append("nt:baseline")
        x = X[i]
        check(np.all(x >= sv.lb - slack) and np.all(x <= np.where(np.isfinite(sv.ub), sv.ub + slack, np.inf)), f"excitation:bounds:{cls}",
              f"intensities {x.tolist()} outside the bounds [{sv.lb.tolist()}, {sv.ub.tolist()}] for an {cls} target", observed=dict(b=b.tolist(), x=x.tolist()))
        q = sv.predict(x)
        v_code = excitation_value(b, np.maximum(q, 0))
        t_opt, xw = excitation_opt(sv, b)
        # gaps below 0.1 excitation units are the inaccuracy recorded as known finding C07-K2; larger ones are a different matter
        sev = "minor" if v_code <= t_opt + 0.1 else "major"
        check(v_code <= t_opt + etol, f"excitation:not-optimal-{sev}:{cls}",
              f"largest excitation difference of the returned intensities {v_code:.5g} exceeds the optimum {t_opt:.5g} by more than {etol} "
              f"(kind={r['kind']}, {'/'.join(sv.labels())})", observed=dict(b=b.tolist(), x=x.tolist(), q=q.tolist()))
        if cls == "in-gamut":
            check(np.all(np.abs(q - b) <= 2e-2 * (1 + b) ** 2 + 2e-2), "excitation:in-gamut-not-reproduced",
                  f"in-gamut target {b.tolist()} fitted as {q.tolist()}")
    # receptors that do not count (weight 0, registered with the targets) are ignored, however unreachable their targets: the
    # optimum is the one of the system without them (estimator route: register_targets(B, W) then fit(model="excitation"))
    if sv.m >= 2 and (sv.K_raw is None or np.ndim(sv.K_raw) < 2) and int(abs(float(np.sum(B))) * 1e6) % 3 == 0:
        j = sv.m - 1
        keep = [i for i in range(sv.m) if i != j]
        sub_ = lambda v: v if (v is None or np.ndim(v) == 0) else np.asarray(v, dtype=float)[keep].tolist()
        sub = Sys(dict(case["system"], A=np.asarray(case["system"]["A"], dtype=float)[keep].tolist(), K=sub_(sv.K_raw), baseline=sub_(sv.base_raw)))
        Bm = B.copy()
        Bm[:, j] = Bm[:, j] + 3.0 * sv.extent              # out of reach for the masked receptor
        mask = np.ones(sv.m)
        mask[j] = 0.0
        Wm = mask if B.shape[0] % 2 else np.tile(mask, (B.shape[0], 1))
        with calling(f"register_targets(B, W={'1-D' if Wm.ndim == 1 else '2-D'} 0/1 mask) + fit(model='excitation')"):
            est = sv.make_estimator()
            est.register_targets(Bm.copy(), W=Wm.copy())
            est.fit(model="excitation")             # registered targets: returns the estimator, the result is in est.X
        Xm = np.asarray(est.X, dtype=float)
        check(Xm.shape == (B.shape[0], sv.n), "excitation:masked:shape", f"{Xm.shape}")
        # the same call through the function (same solver, same problem): the two routes agree whatever the solver's accuracy
        from dreye.api.optimize.lsq_linear import lsq_linear_excitation as _exc

        with calling("lsq_linear_excitation(W=0/1 mask)"):
            Xfn = np.asarray(_exc(sv.A, Bm.copy(), W=Wm.copy(), **sv.kwargs()), dtype=float)
        if not (Xfn.shape == Xm.shape and np.all(np.abs(Xfn - Xm) <= 1e-6 * float(np.max(rng)))):
            raise Violation("excitation:masked:route-differs", f"registered 0/1 weights: ReceptorEstimator.fit(model='excitation') gives {Xm.tolist()}, "
                            f"lsq_linear_excitation with the same targets and weights {Xfn.tolist()}", exact=True)
        for i, b in enumerate(B):
            qk = sub.predict(np.clip(Xm[i], sv.lb, sv.ub))
            v_code = excitation_value(b[keep], np.maximum(qk, 0))
            t_opt, _ = excitation_opt(sub, b[keep])
            sev = "minor" if v_code <= t_opt + 0.1 else "major"
            check(v_code <= t_opt + etol, f"excitation:not-optimal-{sev}:masked",
                  f"with receptor {j} weighted 0 the largest excitation difference over the counted receptors is {v_code:.5g}, the optimum without that receptor {t_opt:.5g}",
                  observed=dict(b=b.tolist(), x=Xm[i].tolist()))
        labs.append("nt:masked-receptor")
    return labs


# ------------------------------------------------------------------------------------------------
# agreement of the three models in gamut


@st.composite
def agree_case(draw):
    sysd = draw(nonneg_system())
    rows = draw(target_rows(sysd, ["interior"], nrows=(1, 2), margin=(0.1, 0.45)))
    return dict(system=sysd, rows=rows, models=draw(st.sampled_from([["gaussian", "poisson"], ["gaussian", "poisson"], ["gaussian", "poisson", "excitation"]])),
                batch_size=draw(st.sampled_from([None, None, 2, "full"])))


def body_agree(case):
    sv = Sys(case["system"])
    B = _targets(case)
    labs = sv.labels()
    for model in case["models"]:
        bs = case.get("batch_size") if model != "excitation" else None
        with calling(f"{model} fit (batch_size={bs})"):
            X, Bp = run_model(sv, B, None, model, "estimator", **({} if bs is None else dict(batch_size=bs)))
        # Poisson: the likelihood is flat near its optimum, prediction error ~ sqrt(q * gap)
        tol = 2e-2 if model == "gaussian" else (2e-2 * np.maximum(1.0, np.sqrt(B)) if model == "poisson" else 2e-2 * (1 + B) ** 2 + 2e-2)
        check(np.all(np.abs(Bp - B) <= tol), f"agree:{model}-not-reproducing", f"in-gamut targets {B.tolist()} fitted by the {model} model as {Bp.tolist()}")
        labs.append(model)
    labs.append("nt:in-gamut-agreement" if (np.any(sv.basep != 0) or len(case["models"]) == 3) else "agreement")
    return labs


def pred_baseline_nonzero(case):
    return bool(np.any(Sys(case["system"]).basep != 0))


RULE = (
    "Hypothesis-generated well-scaled systems with non-negative A (1-4 receptors x 1-6 sources), bounds finite/default, lb zero/positive, K "
    "none/scalar/vector, baseline none/scalar/vector, targets >= 0 constructed inside / near / outside / far outside the gamut; Poisson with "
    "and without receptor weights. Oracles: Poisson - witness principle with L-BFGS-B minimisers of the weighted NLL started from BVLS, "
    "the code's own answer and the box centre (NLL(x_code) <= NLL(witness) + 1e-4 x scale); excitation - exact optimum by bisection on t "
    "with an LP feasibility problem (|b-q| <= t(1+b)(1+q) is linear in q), tolerance 2.5e-2 excitation units (default SCS bisection); in gamut - the target "
    "itself (2e-2). Non-trivial = baseline != 0 or an out-of-gamut target."
    " Poisson and agreement cases draw batch_size in {None,2,3,full}; a fifth hand over whole-number targets as int64; a quarter of the Poisson cases contain one (nearly) dark target entry (0, 1e-6..1e-12)."
    " Excitation: in a third of the cases a receptor is masked by 0/1 weights registered with the targets (unreachable target for it): optimum of the system without that receptor, and estimator route == function route (exact comparison)."
)

PROP = Prop(
    pid="C07",
    title="Poisson and excitation models minimise their objective; all agree in gamut",
    rule=RULE,
    assumptions=["witness principle: a weak witness costs power, never soundness", "excitation model checked with unit weights (the statement defines its objective without weights)"],
    predicates={"baseline_nonzero": pred_baseline_nonzero},
    subs=[
        Sub("poisson", model_case("poisson"), body_poisson, quick=320, thorough=20000, quick_shards=8, min_nt_share=0.3),
        Sub("excitation", model_case("excitation"), body_excitation, quick=96, thorough=5000, quick_shards=16, min_nt_share=0.3),
        Sub("agreement", agree_case(), body_agree, quick=96, thorough=5000, quick_shards=8, min_nt_share=0.2),
    ],
)
