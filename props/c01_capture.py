"""C01 — capture is the pairwise, linear trapezoid integral of filter x signal."""
from __future__ import annotations

import itertools

import numpy as np
from hypothesis import strategies as st

from vlib import gens
from vlib.core import Prop, Sub, Violation, calling, check
from vlib.oracles import rect_fsum, trapz_fsum, trapz_np

REL = 1e-11   # relative to the sum of |terms| of the integral (several thousand ulps of slack)


def _dreye():
    import dreye
    return dreye


# ------------------------------------------------------------------------------------------------
# generators


@st.composite
def domains(draw, n):
    kind = draw(st.sampled_from(["step", "uniform", "nonuniform", "nonuniform"]))
    # the unit of the domain is arbitrary (nm, um, m, seconds...): absolute scales from 1e-9 to 1e3
    unit = draw(st.sampled_from([1.0, 1.0, 1.0, 1e-3, 1e-6, 1e-9, 1e3]))
    if kind == "step":
        if draw(st.integers(0, 4)) == 0:
            return draw(st.sampled_from([1, 2, 3, 5, 10]))     # an integer-typed step (e.g. domain=1) is as legitimate as 1.0
        return unit * draw(st.one_of(st.sampled_from([1.0, 0.5, 2.0, 5.0]), gens.log_uniform(1e-3, 1e2)))
    return [unit * v for v in draw(gens.ascending_domain(n, uniform=(kind == "uniform")))]


@st.composite
def capture_case(draw, allow_1d=True, max_batch=2):
    nd = draw(st.integers(1, 40)) if draw(st.integers(0, 9)) else 1
    nd = max(nd, 1)
    fkind = draw(st.sampled_from(["2d", "2d", "2d", "1d"] if allow_1d else ["2d"]))
    skind = draw(st.sampled_from(["2d", "2d", "2d", "1d"] if allow_1d else ["2d"]))
    nf = draw(st.integers(1, 5))
    ns = draw(st.integers(1, 5))
    # broadcastable leading batch axes
    nb = draw(st.integers(0, max_batch)) if (fkind == "2d" and skind == "2d") else 0
    full = [draw(st.integers(1, 3)) for _ in range(nb)]
    bF, bS = [], []
    for d in full:
        who = draw(st.sampled_from(["both", "f1", "s1"]))
        bF.append(1 if who == "f1" else d)
        bS.append(1 if who == "s1" else d)
    # either side may have fewer leading axes
    dropF = draw(st.integers(0, nb))
    dropS = draw(st.integers(0, nb)) if dropF == 0 else 0
    bF, bS = bF[dropF:], bS[dropS:]
    fshape = tuple(bF) + (nf, nd) if fkind == "2d" else (nd,)
    sshape = tuple(bS) + (ns, nd) if skind == "2d" else (nd,)
    # a spectrally flat filter set / signal set in broadcast form: domain axis of length one against the other side's full domain
    flat = draw(st.sampled_from([None, None, None, None, None, "f", "s"]))
    if flat == "f" and fkind == "2d":
        fshape = fshape[:-1] + (1,)
    elif flat == "s" and skind == "2d":
        sshape = sshape[:-1] + (1,)
    F = draw(gens.array(fshape))
    S = draw(gens.array(sshape))
    dom = draw(domains(nd))
    trapz = draw(st.booleans())
    return dict(filters=F, signals=S, domain=dom, trapz=trapz, form=draw(st.sampled_from([None, None, None, "list", "int"])))


def _oracle(F, S, dom, trapz):
    """expected capture and abs-scale, entry by entry from signal i and filter j only."""
    F = np.asarray(F, dtype=float)
    S = np.asarray(S, dtype=float)
    scalar = not isinstance(dom, list)
    x = None if scalar else [float(v) for v in dom]

    def integ(y):
        y = [float(v) for v in y]
        if scalar and not trapz:
            return rect_fsum(y, float(dom))
        return trapz_fsum(y, x=x, dx=(float(dom) if scalar else None))

    if F.ndim > 1 and S.ndim > 1:
        nf, ns = F.shape[-2], S.shape[-2]
        bshape = np.broadcast_shapes(F.shape[:-2], S.shape[:-2])
        Fb = np.broadcast_to(F, bshape + F.shape[-2:])
        Sb = np.broadcast_to(S, bshape + S.shape[-2:])
        out = np.zeros(bshape + (ns, nf))
        sc = np.zeros(bshape + (ns, nf))
        for idx in itertools.product(*[range(k) for k in bshape]):
            for i in range(ns):
                for j in range(nf):
                    v, a = integ(Sb[idx + (i,)] * Fb[idx + (j,)])
                    out[idx + (i, j)] = v
                    sc[idx + (i, j)] = a
        return out, sc
    prod = F * S
    oshape = prod.shape[:-1]
    out = np.zeros(oshape)
    sc = np.zeros(oshape)
    for idx in itertools.product(*[range(k) for k in oshape]):
        v, a = integ(prod[idx])
        out[idx] = v
        sc[idx] = a
    return out, sc


def _labels(case):
    F = np.asarray(case["filters"], dtype=float)
    S = np.asarray(case["signals"], dtype=float)
    dom = case["domain"]
    nd = max(F.shape[-1], S.shape[-1])
    F, S = np.broadcast_to(F, F.shape[:-1] + (nd,)), np.broadcast_to(S, S.shape[:-1] + (nd,))
    labs = [f"F{F.ndim}d", f"S{S.ndim}d", "step" if not isinstance(dom, list) else ("uniform" if gens.is_uniform(dom) else "nonuniform")]
    if not case.get("trapz", True):
        labs.append("rect")
    nonuni = isinstance(dom, list) and not gens.is_uniform(dom)
    multi = F.ndim > 1 and S.ndim > 1 and F.shape[-2] >= 2 and S.shape[-2] >= 2
    if multi:
        multi = len({tuple(r) for r in F.reshape(-1, nd).tolist()}) >= 2 and len({tuple(r) for r in S.reshape(-1, nd).tolist()}) >= 2
    if nd >= 3 and (nonuni or multi):
        labs.append("nt:order-or-spacing-sensitive")
    if F.ndim > 2 or S.ndim > 2:
        labs.append("batch")
    return labs


def _dom_arg(dom):
    if isinstance(dom, list):
        return np.asarray(dom, dtype=float)
    return dom if (isinstance(dom, int) and not isinstance(dom, bool)) else float(dom)


def _close(got, exp, scale, rel, label, what):
    got = np.asarray(got, dtype=float)
    check(got.shape == np.asarray(exp).shape, f"{label}:shape", f"{what}: shape {got.shape} != expected {np.asarray(exp).shape}")
    err = np.abs(got - exp)
    tol = rel * scale + 1e-300
    bad = ~(err <= tol)
    if np.any(bad):
        k = np.unravel_index(np.argmax(np.where(bad, err / (tol + 1e-300), 0)), err.shape) if err.ndim else ()
        raise Violation(f"{label}:value", f"{what}: got {got[k]!r} expected {np.asarray(exp)[k]!r} at {k} (tol {np.asarray(tol)[k] if np.ndim(tol) else tol:.3g})",
                        observed=dict(got=float(got[k]), expected=float(np.asarray(exp)[k]), index=[int(i) for i in k]))


# ------------------------------------------------------------------------------------------------
# bodies


def body_value(case):
    dreye = _dreye()
    F, S = np.asarray(case["filters"], dtype=float), np.asarray(case["signals"], dtype=float)
    F0, S0 = F.copy(), S.copy()
    form = case.get("form")
    Fa, Sa = (gens.as_form(F, form), gens.as_form(S, form)) if form else (F, S)
    with calling(f"calculate_capture (arguments as {form or 'float arrays'})"):
        got = dreye.calculate_capture(Fa, Sa, domain=_dom_arg(case["domain"]), trapz=case["trapz"])
    exp, sc = _oracle(case["filters"], case["signals"], case["domain"], case["trapz"])
    _close(got, exp, sc, REL, "value", "calculate_capture")
    check(np.array_equal(F, F0) and np.array_equal(S, S0), "inputs-modified", "calculate_capture modified its inputs")
    return _labels(case) + ([f"form:{form}" + (":int-typed" if form == "int" and getattr(Fa, "dtype", None) == np.int64 else "")] if form else [])


@st.composite
def noninterference_case(draw):
    c = draw(capture_case(allow_1d=False, max_batch=1))
    F = np.asarray(c["filters"])
    S = np.asarray(c["signals"])
    c["i"] = draw(st.integers(0, S.shape[-2] - 1))
    c["j"] = draw(st.integers(0, F.shape[-2] - 1))
    c["filters2"] = draw(gens.array(F.shape))
    c["signals2"] = draw(gens.array(S.shape))
    return c


def body_noninterference(case):
    dreye = _dreye()
    F, S = np.asarray(case["filters"], dtype=float), np.asarray(case["signals"], dtype=float)
    F2, S2 = np.asarray(case["filters2"], dtype=float), np.asarray(case["signals2"], dtype=float)
    i, j = case["i"], case["j"]
    F2[..., j, :] = F[..., j, :]
    S2[..., i, :] = S[..., i, :]
    dom = _dom_arg(case["domain"])
    with calling("calculate_capture"):
        a = np.asarray(dreye.calculate_capture(F, S, domain=dom, trapz=case["trapz"]))
        b = np.asarray(dreye.calculate_capture(F2, S2, domain=dom, trapz=case["trapz"]))
    _, sc = _oracle(case["filters"], case["signals"], case["domain"], case["trapz"])
    _close(b[..., i, j], a[..., i, j], sc[..., i, j], 1e-13, "noninterference", f"entry ({i},{j}) after replacing all other filters/signals")
    labs = _labels(case)
    if F.shape[-2] >= 2 or S.shape[-2] >= 2:
        labs.append("nt:others-replaced")
    return labs


@st.composite
def linearity_case(draw):
    c = draw(capture_case(allow_1d=True, max_batch=1))
    c["signals_b"] = draw(gens.array(np.asarray(c["signals"]).shape))
    c["filters_b"] = draw(gens.array(np.asarray(c["filters"]).shape))
    c["alpha"] = draw(gens.values(-10, 10))
    c["beta"] = draw(gens.values(-10, 10))
    return c


def body_linearity(case):
    dreye = _dreye()
    F, S = np.asarray(case["filters"], dtype=float), np.asarray(case["signals"], dtype=float)
    Fb, Sb = np.asarray(case["filters_b"], dtype=float), np.asarray(case["signals_b"], dtype=float)
    al, be = case["alpha"], case["beta"]
    dom = _dom_arg(case["domain"])
    kw = dict(domain=dom, trapz=case["trapz"])
    with calling("calculate_capture"):
        q_mix_s = np.asarray(dreye.calculate_capture(F, al * S + be * Sb, **kw))
        q_s1 = np.asarray(dreye.calculate_capture(F, S, **kw))
        q_s2 = np.asarray(dreye.calculate_capture(F, Sb, **kw))
        q_mix_f = np.asarray(dreye.calculate_capture(al * F + be * Fb, S, **kw))
        q_f2 = np.asarray(dreye.calculate_capture(Fb, S, **kw))
    # abs scale via the oracle on absolute values
    _, sc_s = _oracle(np.abs(F).tolist(), (abs(al) * np.abs(S) + abs(be) * np.abs(Sb)).tolist(), case["domain"], case["trapz"])
    _, sc_f = _oracle((abs(al) * np.abs(F) + abs(be) * np.abs(Fb)).tolist(), np.abs(S).tolist(), case["domain"], case["trapz"])
    _close(q_mix_s, al * q_s1 + be * q_s2, sc_s, 1e-10, "linear-signals", "capture(F, a*S1+b*S2) vs a*capture(F,S1)+b*capture(F,S2)")
    _close(q_mix_f, al * q_s1 + be * q_f2, sc_f, 1e-10, "linear-filters", "capture(a*F1+b*F2, S) vs a*capture(F1,S)+b*capture(F2,S)")
    labs = _labels(case)
    if al != 0 and be != 0 and max(F.shape[-1], S.shape[-1]) >= 2:
        labs.append("nt:superposition")
    return labs


@st.composite
def step_case(draw):
    c = draw(capture_case(allow_1d=True, max_batch=1))
    c["domain"] = draw(st.one_of(st.sampled_from([1.0, 0.5, 2.0, 5.0, 0.1]), st.sampled_from([1, 3, 5]), gens.log_uniform(1e-3, 1e2)))
    c["trapz"] = True
    return c


def body_step(case):
    dreye = _dreye()
    F, S = np.asarray(case["filters"], dtype=float), np.asarray(case["signals"], dtype=float)
    dx = _dom_arg(case["domain"])
    nd = max(F.shape[-1], S.shape[-1])
    with calling("calculate_capture"):
        a = np.asarray(dreye.calculate_capture(F, S, domain=dx))
        b = np.asarray(dreye.calculate_capture(F, S, domain=np.arange(nd) * dx))
    _, sc = _oracle(case["filters"], case["signals"], dx, True)
    _close(a, b, sc, 1e-11, "step-vs-domain", "scalar step vs explicit domain 0,dx,2dx,...")
    labs = _labels(case)
    if nd >= 3:
        labs.append("nt:step")
    return labs


@st.composite
def integral_case(draw):
    ndim = draw(st.integers(1, 3))
    shape = tuple(draw(st.integers(1, 6)) for _ in range(ndim))
    axis = draw(st.integers(-ndim, ndim - 1))
    n = shape[axis]
    arr = draw(gens.array(shape))
    dom = draw(domains(n))
    return dict(arr=arr, domain=dom, axis=axis, keepdims=draw(st.booleans()))


def body_integral(case):
    dreye = _dreye()
    arr = np.asarray(case["arr"], dtype=float)
    axis, keep = case["axis"], case["keepdims"]
    dom = case["domain"]
    with calling("integral"):
        got = np.asarray(dreye.integral(arr, _dom_arg(dom), axis=axis, keepdims=keep))
    moved = np.moveaxis(arr, axis, -1)
    exp = np.zeros(moved.shape[:-1])
    sc = np.zeros(moved.shape[:-1])
    for idx in itertools.product(*[range(k) for k in moved.shape[:-1]]):
        y = [float(v) for v in moved[idx]]
        if isinstance(dom, list):
            exp[idx], sc[idx] = trapz_fsum(y, x=[float(v) for v in dom])
        else:
            exp[idx], sc[idx] = trapz_fsum(y, dx=float(dom))
    if keep:
        exp = np.expand_dims(exp, axis % arr.ndim)
        sc = np.expand_dims(sc, axis % arr.ndim)
    _close(got, exp, sc, REL, "integral", f"integral(axis={axis}, keepdims={keep})")
    labs = ["step" if not isinstance(dom, list) else ("uniform" if gens.is_uniform(dom) else "nonuniform"), f"ndim{arr.ndim}"]
    if arr.shape[axis] >= 3 and (arr.ndim >= 2 or (isinstance(dom, list) and not gens.is_uniform(dom))):
        labs.append("nt:axis-or-spacing-sensitive")
    return labs


@st.composite
def estimator_case(draw):
    nd = draw(st.integers(2, 30))
    nf = draw(st.integers(1, 5))
    skind = draw(st.sampled_from(["2d", "2d", "1d"]))
    ns = draw(st.integers(1, 5))
    F = draw(gens.array((nf, nd)))
    S = draw(gens.array((ns, nd) if skind == "2d" else (nd,)))
    dom = draw(domains(nd))
    return dict(filters=F, signals=S, domain=dom, trapz=True)


def body_estimator(case):
    dreye = _dreye()
    F, S = np.asarray(case["filters"], dtype=float), np.asarray(case["signals"], dtype=float)
    with calling("ReceptorEstimator.capture"):
        est = dreye.ReceptorEstimator(F, domain=_dom_arg(case["domain"]))
        got = est.capture(S)
    exp, sc = _oracle(case["filters"], case["signals"], case["domain"], True)
    _close(got, exp, sc, REL, "estimator-capture", "ReceptorEstimator.capture on the filters' own domain")
    return _labels(case)


RULE = (
    "Hypothesis-generated filters/signals (finite floats in [-1e3,1e3], small ints, exact zeros) of shapes 1-D/2-D with 0-2 "
    "broadcastable leading batch axes, n_domain 1-40, domain = positive scalar step or strictly ascending uniform/non-uniform "
    "array, trapz True/False; oracle = pure-Python fsum trapezoid per output entry. A case is non-trivial when n_domain>=3 and "
    "(the domain is non-uniform or there are >=2 distinct filters and >=2 distinct signals), i.e. it distinguishes index order and "
    "x= from dx=; for the linearity/step/integral sub-checks the analogous rule stated in their labels. distinct = distinct "
    "SHA-1 of the canonical JSON case per sub-check."
    " Arguments are also handed over as nested lists and (when whole numbers) as int64 arrays; steps may be Python ints; domain units span 1e-9..1e3."
    " Filter or signal sets may be spectrally flat in broadcast form (domain axis of length one)."
)

# ------------------------------------------------------------------------------------------------
# large calls: many signals x filters x domain points (size-dependent code paths); data from a drawn numpy seed


@st.composite
def large_case(draw):
    nd = draw(st.sampled_from([31, 101, 401, 1201]))
    nf = draw(st.integers(2, 5))
    total = draw(st.sampled_from([2 ** 20, 2 ** 22, 2 ** 24, 2 ** 25]))          # elements of the broadcast product
    ns = total // (nf * nd) + draw(st.integers(1, 9))
    return dict(nd=nd, nf=nf, ns=int(ns), data_seed=draw(st.integers(0, 2 ** 31 - 1)),
                domain=draw(st.sampled_from(["step", "uniform", "nonuniform"])), step=draw(st.sampled_from([1, 0.5, 2.0])),
                trapz=draw(st.sampled_from([True, True, False])))


def body_large(case):
    """The arrays are too large to be drawn element by element: they come from numpy's generator seeded with a drawn value (the
    case is still a pure function of its JSON).  Oracle: own trapezoid weights (half weights at both ends) as a matrix product
    for EVERY row, the fsum trapezoid for a handful of rows, and the same rows evaluated in a small call."""
    dreye = _dreye()
    rng = np.random.default_rng(case["data_seed"])
    nd, nf, ns = case["nd"], case["nf"], case["ns"]
    F = rng.uniform(0.1, 1.0, (nf, nd))
    S = rng.uniform(0.1, 1.0, (ns, nd))               # non-zero at both ends of the domain
    if case["domain"] == "step":
        dom_arg = case["step"]
        x = np.arange(nd) * float(case["step"])
    elif case["domain"] == "uniform":
        x = 300.0 + np.arange(nd) * float(case["step"])
        dom_arg = x
    else:
        x = np.cumsum(rng.uniform(0.2, 2.0, nd))
        dom_arg = x
    trapz = case["trapz"] if case["domain"] == "step" else True      # (trapz=False is defined for a scalar step)
    with calling(f"calculate_capture ({ns} signals x {nf} filters x {nd} points)"):
        got = np.asarray(dreye.calculate_capture(F, S, domain=dom_arg, trapz=trapz), dtype=float)
    check(got.shape == (ns, nf), "large:shape", f"{got.shape} != {(ns, nf)}")
    dx = np.diff(x)
    if trapz:
        w = np.zeros(nd)
        w[:-1] += dx / 2
        w[1:] += dx / 2
    else:
        w = np.full(nd, float(case["step"]))
    exp = (S * w) @ F.T
    scale = (np.abs(S) * np.abs(w)) @ np.abs(F).T
    bad = np.abs(got - exp) > 1e-10 * scale
    if np.any(bad):
        i, j = np.argwhere(bad)[0]
        raise Violation("large:value", f"capture[{i}, {j}] of a call with {ns} signals = {got[i, j]!r}, trapezoid integral = {exp[i, j]!r} "
                                       f"({int(bad.any(axis=1).sum())} rows differ, first {int(np.argmax(bad.any(axis=1)))}, last {int(ns - 1 - np.argmax(bad.any(axis=1)[::-1]))})")
    rows = sorted({0, 1, ns // 2, ns - 2, ns - 1, int(rng.integers(0, ns)), int(rng.integers(0, ns))})
    with calling("calculate_capture (the same rows in a small call)"):
        small = np.asarray(dreye.calculate_capture(F, S[rows], domain=dom_arg, trapz=trapz), dtype=float)
    check(np.all(np.abs(small - got[rows]) <= 1e-12 * scale[rows]), "large:depends-on-call-size", "rows of a large call differ from the same rows evaluated in a small call")
    for i in rows[:3]:
        for j in range(nf):
            v, a = (trapz_fsum if trapz else rect_fsum)([float(p * q) for p, q in zip(S[i], F[j])], **(dict(x=x.tolist()) if trapz else dict(dx=float(case["step"]))))
            check(abs(got[i, j] - v) <= REL * a, "large:value-fsum", f"capture[{i}, {j}] = {got[i, j]!r}, fsum trapezoid = {v!r}")
    return [f"elements>=2^{int(np.log2(ns * nf * nd))}", case["domain"], "trapz" if trapz else "rect", "nt:large-call"]


PROP = Prop(
    pid="C01",
    title="Capture is the trapezoid integral of filter x signal, pairwise and linear",
    rule=RULE,
    assumptions=[
        "IEEE double arithmetic; tolerance 1e-11 x sum|terms| for values, 1e-13 for non-interference, 1e-10 for linearity",
        "math.fsum trapezoid in the harness is the reference",
    ],
    subs=[
        Sub("value_shape", capture_case(), body_value, quick=1500, thorough=120000, quick_shards=2, min_nt_share=0.2),
        Sub("noninterference", noninterference_case(), body_noninterference, quick=800, thorough=60000, min_nt_share=0.2),
        Sub("linearity", linearity_case(), body_linearity, quick=800, thorough=60000, min_nt_share=0.2),
        Sub("scalar_step", step_case(), body_step, quick=600, thorough=40000, min_nt_share=0.2),
        Sub("integral_helper", integral_case(), body_integral, quick=1000, thorough=80000, min_nt_share=0.2),
        Sub("estimator_capture", estimator_case(), body_estimator, quick=600, thorough=40000, min_nt_share=0.2),
        Sub("large_call", large_case(), body_large, quick=24, thorough=320, quick_shards=4, thorough_shards=16, min_nt_share=0.0),
    ],
)
