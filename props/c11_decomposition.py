"""C11 — layer decomposition honours every constraint and never worsens its fit."""
from __future__ import annotations

import warnings

import numpy as np
from hypothesis import strategies as st

from vlib import gens, hooks
from vlib.core import unchanged, HarnessError, Prop, Sub, Violation, calling, check
from vlib.systems import Sys, matrix_system


@st.composite
def decomp_case(draw):
    sysd = draw(matrix_system(m=(2, 4), n=(2, 5), ub_kinds=("finite",), lb_kinds=("zero", "zero", "zero", "pos"),
                              K_kinds=("none", "scalar", "vector"), base_kinds=("none", "none", "scalar", "vector")))
    sv = Sys(sysd)
    n_layers = draw(st.integers(1, 3))
    # all 0/1 masks with at least one source per layer; a masked source must be allowed to be off: lb = 0 whenever the mask has zeros
    use_mask = draw(st.booleans())
    mask = None
    if use_mask:
        rows = []
        for _ in range(n_layers):
            bits = draw(st.lists(st.sampled_from([0, 1, 1]), min_size=sv.n, max_size=sv.n))
            if sum(bits) == 0:
                bits[draw(st.integers(0, sv.n - 1))] = 1
            rows.append(bits)
        mask = rows
        if any(b == 0 for r in rows for b in r):
            # a source that is forbidden in some layer must be allowed to be off: its lower bound is 0; the others keep theirs
            # (mixed zero / positive lower bounds)
            if sysd.get("lb") is None:
                pass
            else:
                lbv = np.broadcast_to(np.asarray(sysd["lb"], dtype=float), (sv.n,)).copy()
                lbv[[j for j in range(sv.n) if any(r[j] == 0 for r in rows)]] = 0.0
                sysd = dict(sysd, lb=lbv.tolist())
            sv = Sys(sysd)
    size = draw(st.one_of(st.integers(5, 20), st.sampled_from([5, 8, 40, 60])))
    U = np.asarray(draw(gens.array((size, sv.n), 0.05, 0.95, styles=("raw",)))).reshape(size, sv.n)
    B = (sv.lb + U * sv.range) @ sv.Ap.T + sv.basep
    lbp = draw(st.sampled_from([0.0, 0.0, 0.1]))
    ubp = draw(st.sampled_from([1.0, 1.0, 2.0, 0.8]))
    sub = draw(st.sampled_from([None, None, "fast", 0.5, 0.8]))
    if isinstance(sub, float) and int(size * sub) < max(n_layers, sv.m) + 1:
        sub = None           # the subsample must still hold more samples than layers/receptors (NMF initialisation precondition)
    return dict(system=sysd, B=B.tolist(), n_layers=n_layers, mask=mask, equal_l1=draw(st.booleans()), subsample=sub, lbp=lbp, ubp=ubp,
                seed=draw(gens.seed_value()), max_iter=draw(st.integers(3, 12)), entry=draw(st.sampled_from(["function", "estimator"])),
                W=draw(st.one_of(st.none(), gens.array((sv.m,), 0.5, 2.0, styles=("raw",)))))


def run(case, sv, B):
    kw = dict(n_layers=case["n_layers"], mask=(None if case["mask"] is None else np.asarray(case["mask"], dtype=float)), lbp=case["lbp"], ubp=case["ubp"],
              max_iter=case["max_iter"], init_iter=200, seed=case["seed"], subsample=case["subsample"], equal_l1norm_constraint=case["equal_l1"])
    w = None if case["W"] is None else np.maximum(np.asarray(case["W"], dtype=float), 0.5)
    with warnings.catch_warnings():
        warnings.simplefilter("ignore")
        if case["entry"] == "estimator":
            est = sv.make_estimator(w=w)
            with unchanged("decomp", estimator=est):
                return est.fit_decomposition(B, **kw)
        from dreye.api.optimize.lsq_linear import lsq_linear_decomposition

        return lsq_linear_decomposition(sv.A, B, W=w, return_pred=True, **sv.kwargs(), **kw)


def loss(sv, X, P, B, w):
    return float(np.linalg.norm(w * (P @ X @ sv.Ap.T - (B - sv.basep))))


def body_decomp(case):
    sv = Sys(case["system"])
    B = np.asarray(case["B"], dtype=float)
    size = B.shape[0]
    L = case["n_layers"]
    w = np.ones(sv.m) if case["W"] is None else np.maximum(np.asarray(case["W"], dtype=float), 0.5)
    B0 = B.copy()
    hooks.reset()
    with calling("fit_decomposition"):
        X, P, Bp = run(case, sv, B)
    trace = hooks.events("decomposition")
    X, P, Bp = np.asarray(X, dtype=float), np.asarray(P, dtype=float), np.asarray(Bp, dtype=float)
    twin_done = False
    if (case["seed"] + size) % 4 == 0:
        # whole-number targets (counts): the int64 array gets the decomposition of the same numbers as floats (same seed)
        whole = np.ceil(B)              # rounded up: targets stay at or above the baseline (the procedure's domain)
        with calling("fit_decomposition of whole-number targets (int64 / float64)"):
            Xi, Pi, _ = run(case, sv, whole.astype(np.int64))
            Xf, Pf, _ = run(case, sv, whole.copy())
        Ri, Rf = np.asarray(Pi, dtype=float) @ np.asarray(Xi, dtype=float), np.asarray(Pf, dtype=float) @ np.asarray(Xf, dtype=float)
        check(Ri.shape == Rf.shape and np.all(np.abs(Ri - Rf) <= 1e-6 * float(np.max(sv.ub - sv.lb)) * max(1.0, case["ubp"])), "decomp:integer-targets-differ",
              f"targets as an int64 array give opacities x intensities {Ri[:2].tolist()}.., as floats {Rf[:2].tolist()}..")
        twin_done = True
    check(np.array_equal(B, B0), "decomp:input-modified", "caller's targets modified")
    check(X.shape == (L, sv.n) and P.shape == (size, L) and Bp.shape == B.shape, "decomp:shape", f"X {X.shape} P {P.shape} B_pred {Bp.shape}")
    labs = sv.labels() + [f"layers{L}", "mask" if case["mask"] is not None else "nomask", f"sub:{case['subsample']}", "equalL1" if case["equal_l1"] else "freeL1", f"entry:{case['entry']}"] + (["whole-number-twin"] if twin_done else [])
    # (a) constraints (SCS accuracy)
    rng = sv.ub - sv.lb
    tolx = 2e-3 * float(np.max(rng))
    check(np.all(X >= sv.lb - tolx) and np.all(X <= sv.ub + tolx), "decomp:source-bounds", f"layer intensities outside the source bounds: {X.tolist()} vs [{sv.lb.tolist()}, {sv.ub.tolist()}]")
    if case["mask"] is not None:
        mk = np.asarray(case["mask"])
        check(np.all(np.abs(X[mk == 0]) <= tolx), "decomp:mask", f"a masked source is on: {X.tolist()} with mask {mk.tolist()}")
    if L > 1 and case["equal_l1"]:
        sums = X.sum(axis=1)
        check(np.max(sums) - np.min(sums) <= 2 * tolx * sv.n, "decomp:equal-l1", f"layer totals differ although equal_l1norm_constraint=True: {sums.tolist()}")
    tolp = 2e-3 * (case["ubp"] - case["lbp"])
    check(np.all(P >= case["lbp"] - tolp) and np.all(P <= case["ubp"] + tolp), "decomp:opacity-bounds", f"opacities outside [{case['lbp']}, {case['ubp']}]: min {P.min()}, max {P.max()}")
    # (b) returned capture is the model's capture of opacities times intensities
    model = P @ X @ sv.Ap.T + sv.basep
    mag = np.abs(P) @ np.abs(X) @ np.abs(sv.Ap).T + np.abs(sv.basep)
    check(np.all(np.abs(Bp - model) <= 1e-9 * mag + 1e-300), "decomp:prediction", "B_pred is not K(A (P X)^T + baseline)")
    # (c) the alternating optimisation never increases the fitting error (hook trace)
    if hooks.available():
        if not trace:
            raise HarnessError("decomposition hook trace is empty although DREYE_VERIF is enabled")
        its = [e["loss"] for e in trace if e["stage"] == "iteration"]
        for a, b in zip(its, its[1:]):
            check(b <= a + 1e-3 * (1 + a), "decomp:loss-increased", f"loss increased during the alternating optimisation: {a:.6g} -> {b:.6g} (all: {np.round(its, 5).tolist()})")
        fx = [e["loss"] for e in trace if e["stage"] == "final_x"]
        if fx and its:
            check(fx[0] <= its[-1] + 1e-3 * (1 + its[-1]), "decomp:final-refit-worse", f"final intensity refit worsens the loss: {its[-1]:.6g} -> {fx[0]:.6g}")
        labs.append(f"iters{min(len(its), 9)}")
    # (d) the factor fitted last is optimal given the other
    from scipy.optimize import lsq_linear as bvls_solve

    Bprime = B - sv.basep
    if case["subsample"]:
        # P was refitted on all samples given X: row-wise bounded least squares
        Mx = (X @ sv.Ap.T).T * w[:, None]                 # channels x layers
        worst = 0.0
        for i in range(size):
            r = bvls_solve(Mx, Bprime[i] * w, bounds=(case["lbp"], case["ubp"]), method="bvls")
            e_opt = float(np.linalg.norm(Mx @ r.x - Bprime[i] * w))
            e_code = float(np.linalg.norm(Mx @ P[i] - Bprime[i] * w))
            worst = max(worst, e_code - e_opt)
            # SCS (the procedure's default solver) is accurate to about 1e-4 of the size of the data
            check(e_code <= e_opt + 5e-3 * (1 + e_opt) + 5e-4 * float(np.max(np.abs(Bprime[i] * w))), "decomp:opacities-not-optimal",
                  f"sample {i}: opacities are not optimal given the intensities: error {e_code:.6g} vs optimum {e_opt:.6g}")
        labs.append("nt:subsampled-P-refit")
    else:
        # X was fitted last given P: bounded least squares in vec(X) (mask columns removed); with the equal-L1 constraint the
        # unconstrained-in-L1 optimum is a lower bound only, so the comparison is one-sided via a feasible witness
        mk = np.ones((L, sv.n)) if case["mask"] is None else np.asarray(case["mask"], dtype=float)
        cols = [(l, j) for l in range(L) for j in range(sv.n) if mk[l, j] != 0]
        D = np.zeros((size * sv.m, len(cols)))
        for c_idx, (l, j) in enumerate(cols):
            D[:, c_idx] = (P[:, l][:, None] * (sv.Ap[:, j] * w)[None, :]).ravel()
        y = (Bprime * w).ravel()
        lbv = np.array([sv.lb[j] for _, j in cols])
        ubv = np.array([sv.ub[j] for _, j in cols])
        l_code = loss(sv, X, P, B, w)
        if not (L > 1 and case["equal_l1"]):
            r = bvls_solve(D, y, bounds=(lbv, ubv), method="bvls")
            l_opt = float(np.linalg.norm(D @ r.x - y))
            check(l_code <= l_opt + 5e-3 * (1 + l_opt), "decomp:intensities-not-optimal",
                  f"intensities are not optimal given the opacities: loss {l_code:.6g} vs optimum {l_opt:.6g}")
        else:
            from scipy.optimize import minimize

            x0 = np.array([X[l, j] for l, j in cols])
            Aeq = np.zeros((L - 1, len(cols)))
            for c_idx, (l, j) in enumerate(cols):
                if l < L - 1:
                    Aeq[l, c_idx] += 1
                if l > 0:
                    Aeq[l - 1, c_idx] -= 1
            res = minimize(lambda v: float(np.sum((D @ v - y) ** 2)), np.clip(x0, lbv, ubv), jac=lambda v: 2 * D.T @ (D @ v - y), bounds=list(zip(lbv, ubv)),
                           constraints=[dict(type="eq", fun=lambda v: Aeq @ v, jac=lambda v: Aeq)], method="SLSQP", options=dict(maxiter=300, ftol=1e-12))
            v = np.clip(res.x, lbv, ubv)
            if np.max(np.abs(Aeq @ v)) <= 1e-6:
                l_wit = float(np.linalg.norm(D @ v - y))
                check(l_code <= l_wit + 5e-3 * (1 + l_wit), "decomp:intensities-not-optimal",
                      f"intensities are not optimal given the opacities (equal-L1): loss {l_code:.6g} vs feasible witness {l_wit:.6g}")
        labs.append("nt:X-fitted-last")
    # (e) same seed -> same result
    with calling("fit_decomposition (repeat)"):
        X2, P2, _ = run(case, sv, B)
    check(np.array_equal(np.asarray(X2), X) and np.array_equal(np.asarray(P2), P), "decomp:seed-not-reproducible", "same seed gives a different decomposition")
    if case["mask"] is not None and L >= 2 and np.any(np.asarray(case["mask"]) == 0):
        labs.append("nt:mask-with-zero-multi-layer")
    return labs


RULE = (
    "Hypothesis-generated well-scaled systems with finite bounds (2-4 receptors x 2-5 sources, non-negative A, K none/scalar/vector, baseline), "
    "1-3 layers, random 0/1 masks with at least one source per layer (lb = 0 whenever the mask has zeros), equal-L1 constraint on/off, "
    "subsample in {None, 'fast', 0.5, 0.8}, opacity bounds, receptor weights, seeds, 5-60 targets that are captures of in-bound intensities "
    "(so that B - baseline >= 0, the NMF initialisation's precondition), max_iter 3-12, both entry points. Oracle: constraint predicates at "
    "SCS accuracy (2e-3 of the range), exact recomputation of the returned capture, the DREYE_VERIF loss trace for monotone descent "
    "(loss_{k+1} <= loss_k + 1e-3 (1+loss_k)), BVLS / SLSQP-witness optimality of the factor fitted last (row-wise BVLS for the opacities after "
    "subsampling, bounded LS in vec(X) otherwise), exact repetition for the seed. Non-trivial = a mask with a zero in a multi-layer fit, "
    "or an optimality check of the last factor."
    " In a quarter of the cases the targets rounded up to whole numbers are decomposed as int64 and as floats (same seed): equal opacities x intensities."
)

PROP = Prop(
    pid="C11",
    title="Layer decomposition honours every constraint and never worsens its fit",
    rule=RULE,
    assumptions=["the descent clause is observable only through the guarded hook (exit 2 if the trace is empty while the guard is on)",
                 "SCS accuracy: constraints at 2e-3 of the range, losses at 5e-3 (1 + loss)"],
    subs=[
        Sub("decomposition", decomp_case(), body_decomp, quick=480, thorough=5000, quick_shards=16, min_nt_share=0.3),
    ],
)
