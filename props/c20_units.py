"""C20 — irradiance <-> photon-flux conversion is the physical law and its exact inverse."""
from __future__ import annotations

import numpy as np
from hypothesis import strategies as st

from vlib import gens
from vlib.core import Prop, Sub, Violation, calling, check

# exact SI (2019) values typed into the harness
H = 6.62607015e-34
C = 299792458.0
NA = 6.02214076e23
HCNA = H * C * NA
PREFIX = {None: 1.0, "": 1.0, "milli": 1e-3, "micro": 1e-6, "nano": 1e-9}
REL = 1e-12


def _dreye():
    import dreye
    return dreye


def oracle_flux(I, lam_nm, prefix):
    return I * (lam_nm * 1e-9) / HCNA / PREFIX[prefix]


def oracle_irr(E, lam_nm, prefix):
    return E * HCNA / (lam_nm * 1e-9) / PREFIX[prefix]


@st.composite
def conv_case(draw, with_units=None):
    kind = draw(st.sampled_from(["scalar", "1d", "nd-last", "nd-axis", "nd-axis", "nd-bcast"]))
    n = draw(st.integers(1, 8))
    wl = draw(gens.array((n,), 100.0, 2000.0, styles=("raw", "int100")))
    if kind == "scalar":
        spec = draw(gens.array((1,), -1e6, 1e6))[0]
        wl = wl[0]
        axis = None
    elif kind == "1d":
        spec = draw(gens.array((n,), -1e6, 1e6))
        axis = draw(st.sampled_from([None, 0, -1]))
    else:
        ndim = draw(st.integers(2, 3))
        shape = [draw(st.integers(1, 4)) for _ in range(ndim)]
        wl_axis = wl_full = None
        if kind == "nd-last":
            shape[-1] = n
            axis = draw(st.sampled_from([None, -1, ndim - 1]))
        elif kind == "nd-bcast":
            # no axis= : the wavelengths come as an "array that can be broadcast to the spectrum" (documented form), i.e. shaped
            # (.., n, 1, ..) with n on any axis, or already broadcast to the full shape
            wl_axis = draw(st.integers(0, ndim - 1))
            shape[wl_axis] = n
            axis = None
            wl_full = draw(st.booleans())
        else:
            k = draw(st.integers(0, ndim - 1))
            shape[k] = n
            axis = draw(st.sampled_from([k, k - ndim]))
        spec = draw(gens.array(tuple(shape), -1e6, 1e6))
    units = draw(st.booleans()) if with_units is None else with_units
    return dict(
        spec=spec, wl=wl, axis=axis, kind=kind, **(dict(wl_axis=wl_axis, wl_full=wl_full) if kind == "nd-bcast" else {}),
        prefix=draw(st.sampled_from([None, "", "milli", "micro", "nano"])),
        return_units=draw(st.sampled_from([None, True, False])),
        spec_units=(draw(st.sampled_from(["native", "si", "milli-si"])) if units else None),
        wl_units=(draw(st.sampled_from([None, "nm", "um"])) if units else None),
        direction=draw(st.sampled_from(["irr2flux", "flux2irr"])),
        # the unit in which plain input numbers are stated (irr_units= / flux_units=); None = the default I / E
        in_prefix=draw(st.sampled_from([None, None, "", "milli", "micro", "nano"])),
        # dtype of the spectrum array: the result is a float64 computation whatever the storage type of the input
        dtype=draw(st.sampled_from([None, None, None, "float32", "int64"])),
        wl_int=draw(st.booleans()),
    )


def _rel(case):
    """relative tolerance: a float32 spectrum carrying a unit is converted by pint in float32 arithmetic (6e-8)"""
    return 1e-6 if case.get("dtype") == "float32" else REL


def _eff_spec(case):
    """the spectrum's values as float64 after the dtype of the case has been applied (float32 rounding, integer rounding)"""
    spec = np.asarray(case["spec"], dtype=float)
    dt = case.get("dtype")
    if dt == "float32":
        spec = np.where(np.abs(spec) < 1e-30, 0.0, spec)       # (a unit conversion in float32 leaves its normal range below 1e-35)
        return spec.astype(np.float32).astype(float)
    if dt == "int64":
        return np.round(np.clip(spec, -1e6, 1e6))
    return spec


def _typed(spec, case):
    """numpy array of the dtype the case asks for (values already rounded by _eff_spec)"""
    dt = case.get("dtype")
    if dt and np.ndim(spec):
        return np.asarray(spec).astype({"float32": np.float32, "int64": np.int64}[dt])
    return spec


def _wl_broadcast(case):
    """wavelength array broadcast to the spectrum's shape along the stated axis."""
    spec = _eff_spec(case)
    wl = np.asarray(case["wl"], dtype=float)
    if spec.ndim == 0 or wl.ndim == 0:
        return spec, wl
    axis = case["axis"]
    ax = (spec.ndim - 1) if axis is None else axis % spec.ndim
    if case.get("wl_axis") is not None:
        ax = case["wl_axis"]
    shape = [1] * spec.ndim
    shape[ax] = wl.size
    return spec, wl.reshape(shape)


def _build_args(case, dreye, spec=None):
    """returns (spec_arg, wl_arg, kwargs, factor_in): factor_in converts the supplied numbers to native units."""
    ureg = dreye.ureg
    own = spec is None              # an explicitly passed spectrum (linearity, inverse) is used as it is
    spec = _eff_spec(case) if own else spec
    wl = np.asarray(case["wl"], dtype=float)
    direction = case["direction"]
    factor = 1.0
    spec_arg = (_typed(spec, case) if own else spec) if spec.ndim else float(spec)
    su = case["spec_units"]
    if su is not None:
        if direction == "irr2flux":
            unit = {"native": "I", "si": "W/m**2/nm", "milli-si": "mW/m**2/nm"}[su]
            factor = 1e-3 if su == "milli-si" else 1.0
        else:
            unit = {"native": "E", "si": "mol/m**2/s/nm", "milli-si": "mmol/m**2/s/nm"}[su]
            factor = 1e-3 if su == "milli-si" else 1.0
        spec_arg = spec_arg * ureg(unit)
    if case.get("wl_axis") is not None and wl.ndim == 1:
        shp = [1] * np.ndim(case["spec"])
        shp[case["wl_axis"]] = wl.size
        wl = wl.reshape(shp)
        if case.get("wl_full"):
            wl = np.broadcast_to(wl, np.shape(case["spec"])).copy()
    wl_arg = wl if wl.ndim else float(wl)
    if case.get("wl_int") and np.all(wl == np.round(wl)):
        wl_arg = wl.astype(np.int64) if wl.ndim else int(wl)            # np.arange(300, 700, 50): integer-typed wavelengths
    wu = case["wl_units"]
    if wu == "nm":
        wl_arg = wl_arg * ureg("nm")
    elif wu == "um":
        wl_arg = (wl_arg / 1000.0) * ureg("um")
    kw = dict(return_units=case["return_units"], prefix=case["prefix"])
    if case["axis"] is not None:
        kw["axis"] = case["axis"]
    ip = case.get("in_prefix")
    if ip is not None:
        kw["irr_units" if direction == "irr2flux" else "flux_units"] = f"{ip}I" if direction == "irr2flux" else f"{ip}E"
        if su is None:
            factor = PREFIX[ip]         # plain numbers are stated in that unit; a quantity keeps its own unit
    return spec_arg, wl_arg, kw, factor


def _call(case, dreye, spec=None, what=None):
    fn = dreye.irr2flux if case["direction"] == "irr2flux" else dreye.flux2irr
    spec_arg, wl_arg, kw, factor = _build_args(case, dreye, spec)
    with calling(what or case["direction"]):
        out = fn(spec_arg, wl_arg, **kw)
    return out, factor


def _labels(case):
    labs = [case["direction"], case["kind"], f"prefix={case['prefix']}", "units" if case["spec_units"] else "plain"]
    spec = np.asarray(case["spec"])
    nt = False
    if spec.ndim >= 2 and case["axis"] is not None and (case["axis"] % spec.ndim) != spec.ndim - 1:
        labs.append("nt:wavelength-not-last-axis")
    if case.get("wl_axis") is not None and case["wl_axis"] != spec.ndim - 1:
        labs.append("nt:broadcast-wavelengths-not-last-axis")
    if case["spec_units"] or case["wl_units"]:
        labs.append("nt:quantity-input")
    if case["prefix"]:
        labs.append("nt:prefix")
    if case.get("in_prefix"):
        labs.append("nt:input-unit-option")
    if case.get("dtype"):
        labs.append(f"dtype:{case['dtype']}")
    if case["axis"] is not None and (case["spec_units"] or case["wl_units"]):
        labs.append("axis+quantity")
    return labs


def body_value(case):
    dreye = _dreye()
    out, factor = _call(case, dreye)
    spec, wlb = _wl_broadcast(case)
    native = spec * factor
    exp = oracle_flux(native, wlb, case["prefix"]) if case["direction"] == "irr2flux" else oracle_irr(native, wlb, case["prefix"])
    want_units = case["return_units"] if case["return_units"] is not None else (case["spec_units"] is not None)
    has = dreye.has_units(out)
    check(bool(has) == bool(want_units), "value:return-type", f"return_units={case['return_units']} spec_units={case['spec_units']} but has_units={has}")
    if has:
        pref = case["prefix"] or ""
        unit = f"{pref}E" if case["direction"] == "irr2flux" else f"{pref}spectralirradiance"
        check(out.units == dreye.ureg(unit).units, "value:unit", f"unit {out.units} != {unit}")
        # dimensional sanity through an independent spelling of the unit
        base = "mol/m**2/s/nm" if case["direction"] == "irr2flux" else "W/m**2/nm"
        mag_base = np.asarray(out.to(base).magnitude, dtype=float)
        check(np.allclose(mag_base, exp * PREFIX[case["prefix"]], rtol=max(1e-11, _rel(case)), atol=0), "value:unit-scale", "prefix unit inconsistent with its SI value")
        mag = np.asarray(out.magnitude, dtype=float)
    else:
        mag = np.asarray(out, dtype=float)
    check(mag.shape == np.asarray(exp).shape, "value:shape", f"shape {mag.shape} != {np.asarray(exp).shape}")
    err = np.abs(mag - exp)
    check(np.all(err <= _rel(case) * np.abs(exp)), "value:value", f"got {np.ravel(mag)[:3].tolist()} expected {np.ravel(exp)[:3].tolist()}",
          observed=dict(got=np.ravel(mag)[:3].tolist(), expected=np.ravel(np.asarray(exp))[:3].tolist()))
    if case["wl_units"] is None and np.ndim(case["wl"]) == 1 and case["spec_units"] is None:
        # the same wavelength array object, refilled in place by the caller, in a second call: the current values count
        fn = dreye.irr2flux if case["direction"] == "irr2flux" else dreye.flux2irr
        spec_arg, wl_arg, kw, _ = _build_args(case, dreye)
        wl_buf = np.array(wl_arg, dtype=float)
        with calling(f"{case['direction']} (wavelength buffer reused)"):
            fn(spec_arg, wl_buf, **kw)
            wl_buf += 37.5
            out2 = fn(spec_arg, wl_buf, **kw)
        mag2 = np.asarray(out2.magnitude if dreye.has_units(out2) else out2, dtype=float)
        c2 = dict(case, wl=(np.asarray(case["wl"], dtype=float) + 37.5).tolist())
        spec2, wlb2 = _wl_broadcast(c2)
        exp2 = oracle_flux(spec2 * factor, wlb2, case["prefix"]) if case["direction"] == "irr2flux" else oracle_irr(spec2 * factor, wlb2, case["prefix"])
        check(np.all(np.abs(mag2 - exp2) <= _rel(case) * np.abs(exp2)), "value:stale-wavelengths",
              f"second call with the wavelength array changed in place: got {np.ravel(mag2)[:3].tolist()} expected {np.ravel(exp2)[:3].tolist()}")
    return _labels(case)


def body_roundtrip(case):
    dreye = _dreye()
    c1 = dict(case, return_units=False)
    out, factor = _call(c1, dreye)
    out = np.asarray(out, dtype=float)
    back_dir = "flux2irr" if case["direction"] == "irr2flux" else "irr2flux"
    # the intermediate is expressed with the prefix: feed it back in native units, or as it is with the unit option naming the prefix
    if case.get("in_prefix") is None:
        c2 = dict(case, direction=back_dir, spec=(out * PREFIX[case["prefix"]]).tolist(), spec_units=None, return_units=False, prefix=None, in_prefix=None, dtype=None)
    else:
        c2 = dict(case, direction=back_dir, spec=out.tolist(), spec_units=None, return_units=False, prefix=None, in_prefix=case["prefix"] or "", dtype=None)
    back, _ = _call(c2, dreye, what=f"{back_dir} (inverse)")
    back = np.asarray(back, dtype=float)
    spec = _eff_spec(case) * factor
    check(back.shape == spec.shape, "roundtrip:shape", f"{back.shape} vs {spec.shape}")
    check(np.all(np.abs(back - spec) <= _rel(case) * np.abs(spec)), "roundtrip:value", f"{np.ravel(spec)[:3].tolist()} -> {np.ravel(back)[:3].tolist()}")
    return _labels(case)


@st.composite
def lin_case(draw):
    c = draw(conv_case())
    shape = np.asarray(c["spec"]).shape
    c["spec_b"] = draw(gens.array(shape, -1e6, 1e6)) if shape else draw(gens.array((1,), -1e6, 1e6))[0]
    c["alpha"] = draw(st.floats(-10, 10))
    c["beta"] = draw(st.floats(-10, 10))
    c["return_units"] = False
    # element-wise: which wavelength sample is perturbed
    c["k"] = draw(st.integers(0, max(0, np.asarray(c["wl"]).size - 1)))
    c["wl_k"] = draw(st.floats(100.0, 2000.0))
    return c


def body_linear_elementwise(case):
    dreye = _dreye()
    a, b = case["alpha"], case["beta"]
    s1 = np.asarray(case["spec"], dtype=float)
    s2 = np.asarray(case["spec_b"], dtype=float)
    o1, _ = _call(case, dreye, spec=s1)
    o2, _ = _call(case, dreye, spec=s2)
    om, _ = _call(case, dreye, spec=a * s1 + b * s2)
    o1, o2, om = (np.asarray(o, dtype=float) for o in (o1, o2, om))
    scale = np.abs(a * o1) + np.abs(b * o2)
    check(np.all(np.abs(om - (a * o1 + b * o2)) <= 1e-11 * scale + 1e-300), "linear:superposition", "conversion is not linear in the spectrum")
    labs = _labels(case)
    # element-wise along the wavelength axis: changing one wavelength sample changes only that slice
    wl = np.asarray(case["wl"], dtype=float)
    if wl.ndim == 1 and s1.ndim >= 1:
        k = case["k"]
        wl2 = wl.copy()
        wl2[k] = case["wl_k"]
        c2 = dict(case, wl=wl2.tolist())
        o3, _ = _call(c2, dreye, spec=s1)
        o3 = np.asarray(o3, dtype=float)
        ax = (s1.ndim - 1) if case["axis"] is None else case["axis"] % s1.ndim
        if case.get("wl_axis") is not None:
            ax = case["wl_axis"]
        same = np.delete(o3, k, axis=ax)
        ref = np.delete(o1, k, axis=ax)
        check(np.array_equal(same, ref), "elementwise:other-slices-changed", "changing one wavelength sample changed other slices")
        exp_k = np.take(o1, k, axis=ax) * ((wl2[k] / wl[k]) if case["direction"] == "irr2flux" else (wl[k] / wl2[k]))
        got_k = np.take(o3, k, axis=ax)
        check(np.all(np.abs(got_k - exp_k) <= 1e-11 * np.abs(exp_k)), "elementwise:slice-value", "perturbed slice does not scale with its own wavelength")
        if wl.size >= 2:
            labs.append("nt:elementwise")
    return labs


def body_units_equal(case):
    """same numbers for plain arrays and for unit-carrying quantities (incl. axis= with quantities)."""
    dreye = _dreye()
    plain = dict(case, spec_units=None, wl_units=None, return_units=False)
    out_p, factor_p = _call(plain, dreye, what=f"{case['direction']} (plain)")
    out_q, factor = _call(dict(case, return_units=False), dreye, what=f"{case['direction']} (quantity)")
    out_p = np.asarray(out_p, dtype=float) * (factor / factor_p)    # the same numbers, stated in the plain call's unit option
    out_q = np.asarray(out_q, dtype=float)
    check(out_q.shape == out_p.shape, "units-equal:shape", f"{out_q.shape} vs {out_p.shape}")
    check(np.all(np.abs(out_q - out_p) <= _rel(case) * np.abs(out_p)), "units-equal:value", f"plain {np.ravel(out_p)[:3].tolist()} vs quantity {np.ravel(out_q)[:3].tolist()}")
    # and the quantity returned on request carries the same magnitude
    out_u, _ = _call(dict(case, return_units=True), dreye, what=f"{case['direction']} (quantity, return_units=True)")
    check(dreye.has_units(out_u), "units-equal:return-type", "return_units=True did not return a quantity")
    check(np.all(np.abs(np.asarray(out_u.magnitude, dtype=float) - out_p) <= _rel(case) * np.abs(out_p)), "units-equal:magnitude", "quantity magnitude differs")
    return _labels(case)


def pred_axis_with_quantity(case):
    return case.get("axis") is not None and (case.get("spec_units") is not None or case.get("wl_units") is not None or case.get("return_units") is True)


RULE = (
    "Hypothesis-generated spectra (scalars, 1-D, 2-3-D with the wavelength on the last or on any stated axis; finite floats in "
    "[-1e6,1e6] incl. zeros/negatives), wavelengths 100-2000 nm, prefixes None/''/milli/micro/nano, plain arrays and pint quantities "
    "(I, W/m^2/nm, mW/m^2/nm; E, mol.., mmol..; wavelengths in nm or um), return_units None/True/False, both directions; oracle = "
    "I*lambda*1e-9/(h c N_A)/prefix with exact SI constants typed into the harness, rel. tol 1e-12. Non-trivial = N-D input with "
    "the wavelength not on the last axis, or quantity input, or a non-empty prefix."
    " The unit in which plain numbers are stated (irr_units / flux_units) is drawn from {default, none, milli, micro, nano}; spectra also as float32 (rel. tol 1e-6 when a unit conversion happens in float32) and int64 arrays."
    " Without axis= the wavelengths may come in broadcast form: shaped (.., n, 1, ..) on any axis or already broadcast to the spectrum's shape."
)

PROP = Prop(
    pid="C20",
    title="Irradiance <-> photon-flux conversion is the physical law and its exact inverse",
    rule=RULE,
    assumptions=["CODATA/SI-2019 exact constants h, c, N_A typed into the harness", "relative tolerance 1e-12"],
    predicates={"axis_with_quantity": pred_axis_with_quantity},
    subs=[
        Sub("value_unit", conv_case(), body_value, quick=1200, thorough=60000, quick_shards=2, min_nt_share=0.3),
        Sub("roundtrip", conv_case(), body_roundtrip, quick=700, thorough=40000, min_nt_share=0.3),
        Sub("linear_elementwise", lin_case(), body_linear_elementwise, quick=500, thorough=30000, min_nt_share=0.3),
        Sub("units_equal", conv_case(with_units=True), body_units_equal, quick=500, thorough=30000, min_nt_share=0.3),
    ],
)
