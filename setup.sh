#!/bin/sh
# offline setup: make sure hypothesis is importable in /venv (from the wheelhouse), nothing else to build
cd "$(dirname "$0")" || exit 1
if ! /venv/bin/python -c "import hypothesis" 2>/dev/null; then
  /venv/bin/pip install --no-index --find-links /opt/veriftools/wheels hypothesis || exit 1
fi
/venv/bin/python -c "import hypothesis, numpy, scipy; print('hypothesis', hypothesis.__version__)" || exit 1
chmod +x check tools/*.py 2>/dev/null
exit 0
